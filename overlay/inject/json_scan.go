// Injected into package json (v5/internal/json) by the verification overlay only.
// Observation-only: a clonable, single-steppable wrapper around the private scanner.
package json

import (
	"fmt"
	"reflect"
	"runtime"
	"strings"
)

type VScan struct{ s scanner }

func VNewScan() *VScan {
	v := &VScan{}
	v.s.reset()
	return v
}

func (v *VScan) Clone() *VScan {
	c := &VScan{s: v.s}
	c.s.parseState = append([]int(nil), v.s.parseState...)
	return c
}

// Step feeds one byte; reports whether the scanner is now in its error state.
func (v *VScan) Step(c byte) bool {
	v.s.bytes++
	return v.s.step(&v.s, c) == scanError
}

// Accepts: would end-of-input here be accepted? (eof() mutates, so it runs on a clone)
func (v *VScan) Accepts() bool {
	c := v.Clone()
	return c.s.eof() != scanError
}

func (v *VScan) Depth() int { return len(v.s.parseState) }

// Key prints every field of the scanner except the byte counter (which only
// feeds error messages); funcs by name. Generic, so added fields are included.
func (v *VScan) Key() string {
	var sb strings.Builder
	rv := reflect.ValueOf(&v.s).Elem()
	rt := rv.Type()
	for i := 0; i < rt.NumField(); i++ {
		f := rt.Field(i)
		if f.Name == "bytes" {
			continue
		}
		fv := rv.Field(i)
		sb.WriteString(f.Name)
		sb.WriteByte('=')
		switch fv.Kind() {
		case reflect.Func:
			if fv.IsNil() {
				sb.WriteString("nil")
			} else {
				n := runtime.FuncForPC(fv.Pointer()).Name()
				sb.WriteString(n[strings.LastIndex(n, ".")+1:])
			}
		case reflect.Interface, reflect.Pointer:
			if fv.IsNil() {
				sb.WriteString("nil")
			} else {
				sb.WriteString("set")
			}
		case reflect.Slice:
			fmt.Fprintf(&sb, "%v", sliceInts(fv))
		case reflect.Bool:
			fmt.Fprintf(&sb, "%v", fv.Bool())
		case reflect.Int, reflect.Int64, reflect.Int32:
			fmt.Fprintf(&sb, "%d", fv.Int())
		default:
			fmt.Fprintf(&sb, "?%s", fv.Kind())
		}
		sb.WriteByte(';')
	}
	return sb.String()
}

func sliceInts(v reflect.Value) []int64 {
	out := make([]int64, v.Len())
	for i := range out {
		e := v.Index(i)
		if e.CanInt() {
			out[i] = e.Int()
		}
	}
	return out
}
