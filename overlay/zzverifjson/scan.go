package zzverifjson

import "github.com/evanphx/json-patch/v5/internal/json"

type Scan = json.VScan

func NewScan() *Scan { return json.VNewScan() }
