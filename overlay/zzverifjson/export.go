// Package zzverifjson exists only inside the verification build overlay: it sits
// inside the v5 module so that it may import internal/json, and re-exports the
// codec's API for the harness (which lives outside the module).
package zzverifjson

import (
	"bytes"
	"io"

	"github.com/evanphx/json-patch/v5/internal/json"
)

type (
	Number                = json.Number
	RawMessage            = json.RawMessage
	Decoder               = json.Decoder
	Encoder               = json.Encoder
	Token                 = json.Token
	Delim                 = json.Delim
	SyntaxError           = json.SyntaxError
	UnmarshalTypeError    = json.UnmarshalTypeError
	InvalidUnmarshalError = json.InvalidUnmarshalError
	UnsupportedTypeError  = json.UnsupportedTypeError
	UnsupportedValueError = json.UnsupportedValueError
	MarshalerError        = json.MarshalerError
	Marshaler             = json.Marshaler
	Unmarshaler           = json.Unmarshaler
)

func Valid(b []byte) bool                          { return json.Valid(b) }
func Compact(dst *bytes.Buffer, src []byte) error  { return json.Compact(dst, src) }
func HTMLEscape(dst *bytes.Buffer, src []byte)     { json.HTMLEscape(dst, src) }
func Marshal(v interface{}) ([]byte, error)        { return json.Marshal(v) }
func Unmarshal(b []byte, v interface{}) error      { return json.Unmarshal(b, v) }
func UnmarshalValid(b []byte, v interface{}) error { return json.UnmarshalValid(b, v) }
func NewDecoder(r io.Reader) *Decoder              { return json.NewDecoder(r) }
func NewEncoder(w io.Writer) *Encoder              { return json.NewEncoder(w) }
func Indent(dst *bytes.Buffer, src []byte, prefix, indent string) error {
	return json.Indent(dst, src, prefix, indent)
}
func MarshalEscaped(v interface{}, escape bool) ([]byte, error) {
	return json.MarshalEscaped(v, escape)
}
func MarshalIndent(v interface{}, prefix, indent string) ([]byte, error) {
	return json.MarshalIndent(v, prefix, indent)
}
func UnmarshalWithKeys(b []byte, v interface{}) ([]string, error) {
	return json.UnmarshalWithKeys(b, v)
}
func UnmarshalValidWithKeys(b []byte, v interface{}) ([]string, error) {
	return json.UnmarshalValidWithKeys(b, v)
}
