// Package zzvsync exists only inside the verification build overlay. In the
// "shim" flavour of the harness build, every non-test library file that imports
// "sync" is compiled from a generated copy whose import reads
//
//	sync "github.com/evanphx/json-patch/v5/zzvsync"
//
// so that the library's Pools, Maps, WaitGroups (and Mutex/RWMutex/Once, should an
// edited tree start using them) are these types. With no Controller installed
// they behave like the real ones (free mode: used by the race pass, where the
// pool is a mutex-guarded global stack so that goroutines really exchange
// objects). With a Controller installed every operation is a scheduling point
// and every Pool.Get answer is a choice the explorer owns.
package zzvsync

import (
	"fmt"
	"runtime"
	"sort"
	rsync "sync"
)

type Locker = rsync.Locker

// Controller is implemented by the harness.
type Controller interface {
	// Point is called by the running thread before every synchronisation
	// operation (and at injected statement boundaries); it may suspend the caller.
	Point(kind string)
	// Choose owns an environment answer with n alternatives; 0 is the default.
	Choose(kind string, n int) int
	// Block suspends the caller until ready() holds (evaluated by the scheduler).
	Block(kind string, ready func() bool)
}

var (
	ctl Controller
	mu  rsync.Mutex // guards registries and, in free mode, the shim structures
	// registries (for reset / fingerprint)
	pools []*Pool
	maps  []*Map
	// FreeYield: in free mode, Yield calls runtime.Gosched (race pass)
	FreeYield bool
)

func SetController(c Controller) { ctl = c }

// StmtPoints: injected statement-boundary points are scheduling points (else only
// the synchronisation operations are). OwnMapOrder: the order of every owned map
// iteration is an explorer choice (rotation of the sorted order); else sorted.
var (
	StmtPoints  = true
	OwnMapOrder = false
)

// SortedKeys is what every `range` over a map in the library packages iterates
// over in this build (rewritten at build time): the keys in sorted order, rotated
// by an explorer-chosen amount when OwnMapOrder is on.
func SortedKeys[M ~map[K]V, K comparable, V any](m M) []K {
	keys := make([]K, 0, len(m))
	for k := range m {
		keys = append(keys, k)
	}
	if len(keys) < 2 {
		return keys
	}
	if sk, ok := any(keys).([]string); ok {
		sort.Strings(sk)
	} else {
		sort.Slice(keys, func(i, j int) bool { return fmt.Sprint(keys[i]) < fmt.Sprint(keys[j]) })
	}
	if c := ctl; c != nil && OwnMapOrder {
		if r := c.Choose("map.order", len(keys)); r > 0 {
			rot := make([]K, 0, len(keys))
			rot = append(rot, keys[r:]...)
			rot = append(rot, keys[:r]...)
			keys = rot
		}
	}
	return keys
}

func point(kind string) {
	if c := ctl; c != nil {
		c.Point(kind)
	}
}

// Yield is the injected statement-boundary scheduling point.
func Yield() {
	if c := ctl; c != nil {
		if StmtPoints {
			c.Point("stmt")
		}
	} else if FreeYield {
		runtime.Gosched()
	}
}

// ---- Pool ----

type Pool struct {
	New   func() any
	items []any
	reg   bool
	Name  string
}

func (p *Pool) register() {
	if !p.reg {
		p.reg = true
		pools = append(pools, p)
	}
}

func (p *Pool) Get() any {
	point("Pool.Get")
	mu.Lock()
	p.register()
	var x any
	if n := len(p.items); n > 0 {
		// default: most recently put item (what a single P sees from sync.Pool);
		// alternatives: any other pooled item, or nothing pooled (GC dropped it /
		// it sits in another P's cache)
		k := 0
		if c := ctl; c != nil {
			mu.Unlock()
			k = c.Choose("Pool.Get", n+1)
			mu.Lock()
			n = len(p.items)
		}
		if k < n {
			i := n - 1 - k
			x = p.items[i]
			p.items = append(p.items[:i:i], p.items[i+1:]...)
		}
	}
	mu.Unlock()
	if x == nil && p.New != nil {
		x = p.New()
	}
	return x
}

func (p *Pool) Put(x any) {
	if x == nil {
		return
	}
	point("Pool.Put")
	mu.Lock()
	p.register()
	p.items = append(p.items, x)
	mu.Unlock()
}

// Items returns the pooled objects, oldest first (harness: fingerprint).
func (p *Pool) Items() []any {
	mu.Lock()
	defer mu.Unlock()
	return append([]any(nil), p.items...)
}

// ---- Map ----

type Map struct {
	m    map[any]any
	keys []any
	reg  bool
}

func (m *Map) init() {
	if !m.reg {
		m.reg = true
		m.m = map[any]any{}
		maps = append(maps, m)
	}
}

func (m *Map) Load(key any) (any, bool) {
	point("Map.Load")
	mu.Lock()
	defer mu.Unlock()
	m.init()
	v, ok := m.m[key]
	return v, ok
}

func (m *Map) Store(key, value any) {
	point("Map.Store")
	mu.Lock()
	defer mu.Unlock()
	m.init()
	if _, ok := m.m[key]; !ok {
		m.keys = append(m.keys, key)
	}
	m.m[key] = value
}

func (m *Map) LoadOrStore(key, value any) (any, bool) {
	point("Map.LoadOrStore")
	mu.Lock()
	defer mu.Unlock()
	m.init()
	if v, ok := m.m[key]; ok {
		return v, true
	}
	m.keys = append(m.keys, key)
	m.m[key] = value
	return value, false
}

func (m *Map) LoadAndDelete(key any) (any, bool) {
	point("Map.LoadAndDelete")
	mu.Lock()
	defer mu.Unlock()
	m.init()
	v, ok := m.m[key]
	if ok {
		m.del(key)
	}
	return v, ok
}

func (m *Map) del(key any) {
	delete(m.m, key)
	for i, k := range m.keys {
		if k == key {
			m.keys = append(m.keys[:i:i], m.keys[i+1:]...)
			break
		}
	}
}

func (m *Map) Delete(key any) { m.LoadAndDelete(key) }

func (m *Map) Swap(key, value any) (any, bool) {
	point("Map.Swap")
	mu.Lock()
	defer mu.Unlock()
	m.init()
	old, ok := m.m[key]
	if !ok {
		m.keys = append(m.keys, key)
	}
	m.m[key] = value
	return old, ok
}

func (m *Map) CompareAndSwap(key, old, new any) bool {
	point("Map.CompareAndSwap")
	mu.Lock()
	defer mu.Unlock()
	m.init()
	if v, ok := m.m[key]; ok && v == old {
		m.m[key] = new
		return true
	}
	return false
}

func (m *Map) CompareAndDelete(key, old any) bool {
	point("Map.CompareAndDelete")
	mu.Lock()
	defer mu.Unlock()
	m.init()
	if v, ok := m.m[key]; ok && v == old {
		m.del(key)
		return true
	}
	return false
}

func (m *Map) Range(f func(key, value any) bool) {
	point("Map.Range")
	mu.Lock()
	m.init()
	ks := append([]any(nil), m.keys...)
	mu.Unlock()
	for _, k := range ks {
		mu.Lock()
		v, ok := m.m[k]
		mu.Unlock()
		if ok && !f(k, v) {
			return
		}
	}
}

// Snapshot returns keys (insertion order) and values (harness: fingerprint).
func (m *Map) Snapshot() (keys, vals []any) {
	mu.Lock()
	defer mu.Unlock()
	for _, k := range m.keys {
		keys = append(keys, k)
		vals = append(vals, m.m[k])
	}
	return
}

// ---- WaitGroup ----

type WaitGroup struct {
	real rsync.WaitGroup
	n    int
}

func (w *WaitGroup) Add(d int) {
	if ctl == nil {
		w.real.Add(d)
		return
	}
	point("WaitGroup.Add")
	w.n += d
	if w.n < 0 {
		panic("sync: negative WaitGroup counter")
	}
}

func (w *WaitGroup) Done() { w.Add(-1) }

func (w *WaitGroup) Wait() {
	c := ctl
	if c == nil {
		w.real.Wait()
		return
	}
	c.Point("WaitGroup.Wait")
	if w.n != 0 {
		c.Block("WaitGroup.Wait", func() bool { return w.n == 0 })
	}
}

// ---- Mutex / RWMutex / Once (not used by the pinned tree; present so that an
// edited tree that starts using them still builds and is still scheduled) ----

type Mutex struct {
	real   rsync.Mutex
	locked bool
}

func (m *Mutex) Lock() {
	c := ctl
	if c == nil {
		m.real.Lock()
		return
	}
	c.Point("Mutex.Lock")
	if m.locked {
		c.Block("Mutex.Lock", func() bool { return !m.locked })
	}
	m.locked = true
}

func (m *Mutex) TryLock() bool {
	if ctl == nil {
		return m.real.TryLock()
	}
	point("Mutex.TryLock")
	if m.locked {
		return false
	}
	m.locked = true
	return true
}

func (m *Mutex) Unlock() {
	if ctl == nil {
		m.real.Unlock()
		return
	}
	point("Mutex.Unlock")
	if !m.locked {
		panic("sync: unlock of unlocked mutex")
	}
	m.locked = false
}

type RWMutex struct {
	real    rsync.RWMutex
	writer  bool
	readers int
}

func (m *RWMutex) Lock() {
	c := ctl
	if c == nil {
		m.real.Lock()
		return
	}
	c.Point("RWMutex.Lock")
	if m.writer || m.readers > 0 {
		c.Block("RWMutex.Lock", func() bool { return !m.writer && m.readers == 0 })
	}
	m.writer = true
}

func (m *RWMutex) Unlock() {
	if ctl == nil {
		m.real.Unlock()
		return
	}
	point("RWMutex.Unlock")
	m.writer = false
}

func (m *RWMutex) RLock() {
	c := ctl
	if c == nil {
		m.real.RLock()
		return
	}
	c.Point("RWMutex.RLock")
	if m.writer {
		c.Block("RWMutex.RLock", func() bool { return !m.writer })
	}
	m.readers++
}

func (m *RWMutex) RUnlock() {
	if ctl == nil {
		m.real.RUnlock()
		return
	}
	point("RWMutex.RUnlock")
	m.readers--
}

func (m *RWMutex) RLocker() Locker { return (*rlocker)(m) }

type rlocker RWMutex

func (r *rlocker) Lock()   { (*RWMutex)(r).RLock() }
func (r *rlocker) Unlock() { (*RWMutex)(r).RUnlock() }

type Once struct {
	real    rsync.Once
	done    bool
	running bool
}

func (o *Once) Do(f func()) {
	c := ctl
	if c == nil {
		o.real.Do(f)
		return
	}
	c.Point("Once.Do")
	if o.done {
		return
	}
	if o.running {
		c.Block("Once.Do", func() bool { return o.done })
		return
	}
	o.running = true
	defer func() { o.done, o.running = true, false }()
	f()
}

// OnceFunc / OnceValue helpers of newer Go versions are not provided; a tree
// that needs them fails the shim build and the driver says so.

// ---- harness side ----

// Reset empties every pool and cache: the state of a fresh process.
func Reset() {
	mu.Lock()
	defer mu.Unlock()
	for _, p := range pools {
		p.items = nil
	}
	for _, m := range maps {
		m.m = map[any]any{}
		m.keys = nil
	}
}

func Pools() []*Pool {
	mu.Lock()
	defer mu.Unlock()
	return append([]*Pool(nil), pools...)
}

func Maps() []*Map {
	mu.Lock()
	defer mu.Unlock()
	return append([]*Map(nil), maps...)
}
