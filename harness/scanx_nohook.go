//go:build nohooks

package main

import "verif.local/h/core"

func runScanx(ctx *core.Ctx, D int) {
	ctx.Cap("scanner product skipped: the injected scanner wrapper does not compile against this tree (bytex still runs)")
}
