//go:build shim

package main

import (
	"reflect"
	"sort"

	v4 "github.com/evanphx/json-patch"
	v5 "github.com/evanphx/json-patch/v5"
	zj "github.com/evanphx/json-patch/v5/zzverifjson"
	zs "github.com/evanphx/json-patch/v5/zzvsync"
)

// Cold starts. The shim's Reset empties the pools and maps that go through the sync shim, but a
// lazily initialised PLAIN package-level variable (a lookup table filled on first use, a flag, a
// counter) is built once per process: after the first execution every "cold" scenario would see it
// built and the window in which it is half-built could never be scheduled again. coldReset therefore
// also restores every package-level variable of the three library packages whose type holds no
// pointers (integers, booleans, floats, strings, arrays and structs of those) to the value it had when
// the process started. Variables with pointers, maps, slices, interfaces or functions are left
// alone (restoring them could resurrect or alias live objects); the sync shim covers pools and maps.
type plainGlobal struct {
	name string
	ptr  reflect.Value // pointer to the variable
	init reflect.Value // copy of its value at process start
}

var plainGlobals []plainGlobal

func plainData(t reflect.Type) bool {
	switch t.Kind() {
	case reflect.Bool, reflect.Int, reflect.Int8, reflect.Int16, reflect.Int32, reflect.Int64,
		reflect.Uint, reflect.Uint8, reflect.Uint16, reflect.Uint32, reflect.Uint64, reflect.Uintptr,
		reflect.Float32, reflect.Float64, reflect.Complex64, reflect.Complex128, reflect.String:
		return true
	case reflect.Array:
		return plainData(t.Elem())
	case reflect.Struct:
		if t.PkgPath() == "sync" || t.PkgPath() == "github.com/evanphx/json-patch/v5/zzvsync" {
			return false
		}
		for i := 0; i < t.NumField(); i++ {
			if !plainData(t.Field(i).Type) {
				return false
			}
		}
		return true
	}
	return false
}

func init() {
	for _, g := range []map[string]interface{}{v5.ZZVerifGlobals(), zj.JSONGlobals(), v4.ZZVerifGlobals()} {
		names := make([]string, 0, len(g))
		for n := range g {
			names = append(names, n)
		}
		sort.Strings(names)
		for _, n := range names {
			pv := reflect.ValueOf(g[n])
			if pv.Kind() != reflect.Ptr || pv.IsNil() || !plainData(pv.Type().Elem()) {
				continue
			}
			if r := []rune(n)[0]; r >= 'A' && r <= 'Z' {
				continue // exported configuration (SupportNegativeIndices, AccumulatedCopySizeLimit): set by the harness, not lazily built state
			}
			cp := reflect.New(pv.Type().Elem()).Elem()
			cp.Set(pv.Elem())
			plainGlobals = append(plainGlobals, plainGlobal{n, pv, cp})
		}
	}
}

// coldReset = shim reset + plain package-level variables back to their process-start values.
// It reports how many variables it had to put back (evidence: which state a call leaves outside the pools).
func coldReset() int {
	zs.Reset()
	n := 0
	for _, g := range plainGlobals {
		if !reflect.DeepEqual(g.ptr.Elem().Interface(), g.init.Interface()) {
			n++
		}
		g.ptr.Elem().Set(g.init)
	}
	return n
}
