package main

import (
	"bytes"
	"fmt"
	"regexp"
	"sort"
	"strings"
	"unicode/utf8"

	"verif.local/h/impl"
	r69 "verif.local/h/ref6902"
	rj "verif.local/h/refjson"
)

// ---- C08: failures return nothing and say why ----

// extension ops appended to a failing prefix: one per kind, aimed at the root's
// first member / element so that most of them would change the outcome if run.
func extensionOps(d *rj.Value) []r69.Op {
	one := rj.MustParse(`1`)
	ops := []r69.Op{
		{Kind: "add", Path: "", Value: rj.MustParse(`{"ext":1}`), HasValue: true},
		{Kind: "test", Path: "", Value: one, HasValue: true},
		{Kind: "remove", Path: "/zz"},
		{Kind: "copy", From: "", Path: "/zz"},
		{Kind: "move", From: "", Path: "/zz"},
		{Kind: "replace", Path: "", Value: rj.MustParse(`[]`), HasValue: true},
	}
	return ops
}

// extensionAt: further operations aimed at the location the failing operation named (a fused or peephole
// execution of "remove then add at the same path" must not turn the failure into a success).
func extensionAt(failing r69.Op) []r69.Op {
	one := rj.MustParse(`1`)
	p := failing.Path
	ops := []r69.Op{{Kind: "add", Path: p, Value: one, HasValue: true}, {Kind: "replace", Path: p, Value: one, HasValue: true}, {Kind: "remove", Path: p}}
	if failing.From != "" {
		ops = append(ops, r69.Op{Kind: "add", Path: failing.From, Value: one, HasValue: true})
	}
	return ops
}

func judgeC08(r *seqRun) {
	if !judgeResult(r, false) {
		return
	}
	if r.obs.Panic != "" || r.obs.DecodeErr != "" {
		return
	}
	if r.ref.OK() {
		return // judgeResult already demands err == nil
	}
	o := &r.obs
	if o.Err == "" {
		return // reported as missed-failure
	}
	c, alt := r.ref.Cause, r.ref.AltCause
	is := func(x r69.Cause) bool { return c == x || alt == x }
	kind := r.lastKind()
	if !o.OutNil {
		r.viol("document-on-failure", "document-on-failure:"+kind, fmt.Sprintf("failing patch returned a non-nil document %q with error %s", o.Out, o.Err))
	}
	if o.IsTestFailed && !is(r69.TestUnequal) {
		r.viol("ErrTestFailed-wrong-cause", "ErrTestFailed-wrong-cause:"+kind+":"+c.String(), fmt.Sprintf("first failing op is %s (cause %s) yet errors.Is(err, ErrTestFailed): %s", kind, c, o.Err))
	}
	if c == r69.TestUnequal && alt == r69.None && !o.IsTestFailed {
		r.viol("ErrTestFailed-missing", "ErrTestFailed-missing:"+kind, "a test compared unequal but errors.Is(err, ErrTestFailed) is false: "+o.Err)
	}
	if o.IsCopySize && !is(r69.CopyLimit) {
		r.viol("CopySizeError-wrong-cause", "CopySizeError-wrong-cause:"+kind+":"+c.String(), "AccumulatedCopySizeError without the limit being exceeded: "+o.Err)
	}
	if c == r69.CopyLimit && alt == r69.None && !o.IsCopySize {
		r.viol("CopySizeError-missing", "CopySizeError-missing:"+kind, "copy pushed the total over the limit but the error is not *AccumulatedCopySizeError: "+o.Err)
	}
	if (c == r69.AbsentMember || c == r69.ParentUnreachable) && alt == r69.None && kind != "test" && !o.IsMissing {
		r.viol("ErrMissing-missing", "ErrMissing-missing:"+kind+":"+c.String(), fmt.Sprintf("%s failed with %s but errors.Is(err, ErrMissing) is false: %s", kind, c, o.Err))
	}
	if c == r69.ParentUnreachable && alt == r69.None && kind == "test" && !o.IsMissing {
		r.viol("ErrMissing-missing", "ErrMissing-missing:test:ParentUnreachable", "test with unreachable parent but errors.Is(err, ErrMissing) is false: "+o.Err)
	}
	// operations after the first failing one have no effect on the outcome
	if r.ref.FailAt == len(r.ops)-1 {
		base := r.ops
		ext := extensionOps(r.doc)
		if len(base) >= 2 {
			ext = []r69.Op{ext[0], ext[5]} // the two that would turn the failure into a success
		}
		if lk := base[len(base)-1].Kind; lk == "remove" || lk == "move" {
			ext = append(ext, extensionAt(base[len(base)-1])...)
		}
		for _, x := range ext {
			r.ops = append(append([]r69.Op(nil), base...), x)
			o2 := r.exec("")
			if o2.Err != o.Err || o2.OutNil != o.OutNil || o2.Panic != "" || o2.IsMissing != o.IsMissing || o2.IsTestFailed != o.IsTestFailed || o2.IsCopySize != o.IsCopySize {
				r.viol("later-op-changes-outcome", "later-op-changes-outcome:"+kind+"+"+x.Kind,
					fmt.Sprintf("prefix fails with %q; with one more op (%s) the outcome is err=%q out=%q panic=%q", o.Err, x, o2.Err, o2.Out, o2.Panic))
			}
			r.ctx.Count("extension_runs", 1)
		}
		r.ops = base
	}
}

// ---- C12: the accumulated copy-size limit ----

func hasKind(ops []r69.Op, k string) bool {
	for _, o := range ops {
		if o.Kind == k {
			return true
		}
	}
	return false
}

func judgeC12(r *seqRun) {
	// limit 0: never a size error
	if r.opt.Limit == 0 {
		if r.obs.IsCopySize {
			r.viol("limit-zero-trips", "limit-zero-trips", "limit 0 must disable the check: "+r.obs.Err)
		}
		judgeResult(r, false)
	}
	if !hasKind(r.ops, "copy") || r.ref.DontCare != "" {
		return
	}
	// candidate limits around every running total the reference computed with limit 0
	base := r.opt
	base.Limit = 0
	ref0 := r69.Apply(r.doc, r.ops, base)
	if ref0.DontCare != "" {
		return
	}
	lims := map[int64]bool{1: true, 1 << 40: true}
	for _, t := range ref0.CopyTotals {
		for _, l := range []int64{t[0] - 1, t[0], t[1], t[1] + 1} {
			if l > 0 {
				lims[l] = true
			}
		}
	}
	saveOpt, saveRef, saveObs := r.opt, r.ref, r.obs
	defer func() { r.opt, r.ref, r.obs, r.out = saveOpt, saveRef, saveObs, nil }()
	var ls []int64
	for l := range lims {
		ls = append(ls, l)
	}
	sort.Slice(ls, func(i, j int) bool { return ls[i] < ls[j] })
	for _, l := range ls {
		r.opt.Limit = l
		r.ref = r69.Apply(r.doc, r.ops, r.opt)
		r.obs = r.exec("")
		r.out = nil
		r.ctx.Count("limit_runs", 1)
		if r.ref.DontCare != "" {
			r.ctx.Count("limit_window_dontcare", 1)
			continue
		}
		if r.obs.Panic != "" {
			r.viol("panic", "panic:"+impl.PanicSite(r.obs.Panic), r.obs.Panic)
			continue
		}
		tripped := r.ref.FailAt >= 0 && r.ref.Cause == r69.CopyLimit
		switch {
		case tripped && r.ref.AltCause == r69.None:
			r.ctx.Count("limit_tripped", 1)
			if !r.obs.IsCopySize {
				r.viol("limit-not-enforced", "limit-not-enforced", fmt.Sprintf("running copy total %v exceeds limit %d at op %d but the library returned err=%q out=%q",
					ref0.CopyTotals, l, r.ref.FailAt, r.obs.Err, r.obs.Out))
			} else if !r.obs.OutNil {
				r.viol("document-on-limit", "document-on-limit", fmt.Sprintf("stopped by the limit yet returned a document %q", r.obs.Out))
			}
		case tripped:
			if r.obs.Err == "" {
				r.viol("limit-not-enforced", "limit-not-enforced", fmt.Sprintf("limit %d exceeded (and the add is inapplicable) but the library succeeded: %q", l, r.obs.Out))
			}
		default:
			r.ctx.Count("limit_within", 1)
			if r.obs.IsCopySize {
				r.viol("limit-trips-early", "limit-trips-early", fmt.Sprintf("totals %v stay within limit %d but the library failed with %s", ref0.CopyTotals, l, r.obs.Err))
			} else {
				judgeResult(r, false)
			}
		}
	}
}

// judgeC12Fixed judges one run under the limit it was made with (used where the
// limit is a package-level variable and therefore fixed per exploration phase).
func judgeC12Fixed(r *seqRun) {
	if r.ref.DontCare != "" {
		return
	}
	// the package-level default governs ApplyIndent exactly as it governs Apply
	if r.p.UseDefaults && r.obs.Panic == "" && r.obs.DecodeErr == "" {
		oi := r.exec("\t")
		r.ctx.Count("indent_variant_runs", 1)
		if oi.Panic == "" && ((oi.Err == "") != (r.obs.Err == "") || oi.IsCopySize != r.obs.IsCopySize || oi.IsMissing != r.obs.IsMissing || oi.IsTestFailed != r.obs.IsTestFailed) {
			r.viol("indent-variant-differs", "indent-variant-differs:"+r.lastKind(), fmt.Sprintf("with the same package-level defaults Apply gives err=%q but ApplyIndent gives err=%q (out=%q)", r.obs.Err, oi.Err, oi.Out))
		}
	}
	if r.obs.Panic != "" {
		r.viol("panic", "panic:"+impl.PanicSite(r.obs.Panic), r.obs.Panic)
		return
	}
	l := r.opt.Limit
	tripped := r.ref.FailAt >= 0 && r.ref.Cause == r69.CopyLimit
	switch {
	case tripped && r.ref.AltCause == r69.None:
		r.ctx.Count("limit_tripped", 1)
		if !r.obs.IsCopySize {
			r.viol("limit-not-enforced", "limit-not-enforced", fmt.Sprintf("running copy total exceeds limit %d at op %d but the library returned err=%q out=%q", l, r.ref.FailAt, r.obs.Err, r.obs.Out))
		} else if !r.obs.OutNil {
			r.viol("document-on-limit", "document-on-limit", fmt.Sprintf("stopped by the limit yet returned a document %q", r.obs.Out))
		}
	case tripped:
		if r.obs.Err == "" {
			r.viol("limit-not-enforced", "limit-not-enforced", fmt.Sprintf("limit %d exceeded but the library succeeded: %q", l, r.obs.Out))
		}
	default:
		if hasKind(r.ops, "copy") {
			r.ctx.Count("limit_within", 1)
		}
		if r.obs.IsCopySize {
			r.viol("limit-trips-early", "limit-trips-early", fmt.Sprintf("copy total within limit %d but the library failed with %s", l, r.obs.Err))
		} else if r.p.Legacy {
			judgeC18(r)
		} else {
			judgeResult(r, false)
		}
	}
}

// ---- C13: AllowMissingPathOnRemove ----

func judgeC13(r *seqRun) {
	if !judgeResult(r, false) {
		return
	}
	if r.obs.Panic != "" || r.obs.DecodeErr != "" {
		return
	}
	// differential on the real code: option on, P  ==  option off, P minus skipped removes
	skip := map[int]bool{}
	for _, i := range r.ref.Skipped {
		skip[i] = true
	}
	var rest []r69.Op
	for i, o := range r.ops {
		if !skip[i] {
			rest = append(rest, o)
		}
	}
	if len(r.ref.Skipped) > 0 {
		r.ctx.Count("sequences_with_skipped_removes", 1)
	}
	on := r.obs
	saveOps, saveOpt := r.ops, r.opt
	r.ops, r.opt = rest, r.opt
	r.opt.AllowMissing = false
	off := r.exec("")
	r.ops, r.opt = saveOps, saveOpt
	if off.Panic != "" {
		return
	}
	same := on.Failed() == off.Failed() && on.IsMissing == off.IsMissing && on.IsTestFailed == off.IsTestFailed && on.IsCopySize == off.IsCopySize
	if same && !on.Failed() {
		same = bytes.Equal(on.Out, off.Out)
	}
	if same && on.Failed() {
		same = on.Err == off.Err
	}
	if !same {
		r.viol("option-changes-more-than-removes", "option-changes-more-than-removes:"+r.lastKind(),
			fmt.Sprintf("option on: out=%q err=%q; option off without the %d skipped removes %s: out=%q err=%q", on.Out, on.Err, len(r.ref.Skipped), r69.PatchText(rest), off.Out, off.Err))
	}
}

// ---- C14: EnsurePathExistsOnAdd ----

func judgeC14(r *seqRun) {
	if !judgeResult(r, true) {
		return
	}
	if r.obs.Panic != "" || r.obs.DecodeErr != "" || !r.ref.OK() || r.obs.Err != "" {
		return
	}
	out, ok := r.parseOut()
	if !ok {
		return
	}
	// the value of a final add is found at its path
	if n := len(r.ops); n > 0 && r.ops[n-1].Kind == "add" && r.ops[n-1].Path != "" {
		op := r.ops[n-1]
		p := op.Path
		got, found := r69.Resolve(out, p, r.opt.Neg)
		if !found && strings.HasSuffix(p, "/-") {
			par, ok := r69.Resolve(out, strings.TrimSuffix(p, "/-"), r.opt.Neg)
			if ok && par.K == rj.Arr && len(par.A) > 0 {
				got, found = par.A[len(par.A)-1], true
			}
		}
		if !found || !rj.Equal(got, op.Value) {
			r.viol("value-not-at-path", "value-not-at-path", fmt.Sprintf("after add %s the output %s does not hold the value there", p, r.obs.Out))
		}
		r.ctx.Count("value_at_path_checked", 1)
	}
	// an add that succeeds without the option gives the same result with it
	saveOpt := r.opt
	r.opt.Ensure = false
	off := r.exec("")
	r.opt = saveOpt
	if off.Panic == "" && off.Err == "" && off.DecodeErr == "" {
		r.ctx.Count("plain_add_agreement_checked", 1)
		if !bytes.Equal(off.Out, r.obs.Out) {
			r.viol("differs-from-plain-add", "differs-from-plain-add", fmt.Sprintf("without the option: %s; with it: %s", off.Out, r.obs.Out))
		}
	}
}

// ---- C15: well-formed outputs, escaping, indentation ----

var escRe = regexp.MustCompile(`(?i)\\u(003c|003e|0026|2028|2029)`)

func rawFive(b []byte) string {
	for i := 0; i < len(b); i++ {
		switch b[i] {
		case '<', '>', '&':
			return string(b[i])
		case 0xE2:
			if i+2 < len(b) && b[i+1] == 0x80 && (b[i+2] == 0xA8 || b[i+2] == 0xA9) {
				return fmt.Sprintf("U+202%X", b[i+2]&0xf)
			}
		}
	}
	return ""
}

func judgeC15(r *seqRun) {
	// well-formedness is unconditional: it also holds for inputs outside the value oracles' domain
	// (duplicate member names, root replaced by null, ...)
	if r.ref.DontCare != "" && r.obs.Panic == "" && r.obs.DecodeErr == "" && r.obs.Err == "" {
		if _, err := rj.Parse(r.obs.Out); err != nil && len(r.obs.Out) > 0 {
			r.viol("output-not-json", "output-not-json:"+r.lastKind(), fmt.Sprintf("successful Apply returned %q, which is not well-formed JSON (%v)", r.obs.Out, err))
		}
		r.ctx.Count("wellformedness_checked_outside_value_domain", 1)
		// ... and so is "ApplyIndent returns exactly Apply's output re-indented": a relation between two outputs
		// of the library, whatever the value is
		if _, err := rj.Parse(r.obs.Out); err == nil {
			for _, ind := range []string{" ", "\t"} {
				oi := r.exec(ind)
				r.ctx.Count("indent_runs", 1)
				if oi.Panic != "" || oi.Err != "" {
					r.viol("indent-fails", "indent-fails", fmt.Sprintf("Apply succeeds with %q, ApplyIndent(%q) gives err=%q panic=%q", r.obs.Out, ind, oi.Err, oi.Panic))
				} else if want := rj.Indent(r.obs.Out, ind); !bytes.Equal(oi.Out, want) {
					r.viol("indent-differs", "indent-differs", fmt.Sprintf("ApplyIndent(%q)=%q, Apply re-indented=%q", ind, oi.Out, want))
				}
			}
		}
	}
	if !judgeResult(r, false) {
		return
	}
	if r.obs.Panic != "" || r.obs.DecodeErr != "" || !r.ref.OK() || r.obs.Err != "" {
		return
	}
	out := r.obs.Out
	if !utf8.Valid(out) {
		r.viol("output-not-utf8", "output-not-utf8", fmt.Sprintf("%q", out))
	}
	patch := r69.PatchText(r.ops)
	if r.opt.EscapeHTML {
		if c := rawFive(out); c != "" {
			r.viol("unescaped-with-escape-on", "unescaped-with-escape-on:"+r.lastKind(), fmt.Sprintf("EscapeHTML on but %s appears raw in %s", c, out))
		}
	} else {
		in := strings.ToLower(r.dtxt + patch)
		for _, m := range escRe.FindAll(out, -1) {
			if !strings.Contains(in, strings.ToLower(string(m))) {
				r.viol("escape-introduced-with-escape-off", "escape-introduced-with-escape-off:"+r.lastKind(),
					fmt.Sprintf("EscapeHTML off, inputs contain no %s, output %s", m, out))
				break
			}
		}
	}
	// ApplyIndent == Apply re-indented
	for _, ind := range []string{" ", "  ", "\t"} {
		oi := r.exec(ind)
		r.ctx.Count("indent_runs", 1)
		if oi.Panic != "" || oi.Err != "" {
			r.viol("indent-fails", "indent-fails", fmt.Sprintf("Apply succeeds, ApplyIndent(%q) gives err=%q panic=%q", ind, oi.Err, oi.Panic))
			continue
		}
		want := rj.Indent(out, ind)
		if !bytes.Equal(oi.Out, want) {
			r.viol("indent-differs", "indent-differs", fmt.Sprintf("ApplyIndent(%q)=%q, Apply re-indented=%q", ind, oi.Out, want))
		}
	}
	// passing tests leave the bytes unchanged
	if hasKind(r.ops, "test") {
		var rest []r69.Op
		for _, o := range r.ops {
			if o.Kind != "test" {
				rest = append(rest, o)
			}
		}
		save := r.ops
		r.ops = rest
		o2 := r.exec("")
		r.ops = save
		r.ctx.Count("test_deletion_runs", 1)
		if o2.Panic == "" && (o2.Err != "" || !bytes.Equal(o2.Out, out)) {
			r.viol("passing-test-changes-bytes", "passing-test-changes-bytes",
				fmt.Sprintf("with the passing tests: %s; without them: out=%s err=%q", out, o2.Out, o2.Err))
		}
	}
}

// ---- C18: legacy Apply ----

func judgeC18(r *seqRun) {
	if r.ref.DontCare != "" {
		return
	}
	if r.ref.FailAt >= 0 {
		// only the failures the statement names are demanded
		k := r.ops[r.ref.FailAt].Kind
		c := r.ref.Cause
		// (a negative index while the package setting is off counts as an out-of-range index)
		named := c == r69.TestUnequal || c == r69.IndexOutOfRange || c == r69.NegativeOff ||
			((k == "remove" || k == "move") && (c == r69.AbsentMember || c == r69.ParentUnreachable))
		// a negative index with the package setting off must not resolve, wherever it stands in the pointer
		// (the alternative cause only says which error class would be acceptable)
		if !named || (r.ref.AltCause != r69.None && c != r69.NegativeOff) {
			r.ctx.Count("legacy_unnamed_failure_skipped", 1)
			return
		}
		if r.obs.Panic != "" {
			r.viol("panic", "panic:"+impl.PanicSite(r.obs.Panic), r.obs.Panic)
			return
		}
		if r.obs.Err == "" {
			r.viol("missed-failure", "missed-failure:"+k+":"+c.String(), fmt.Sprintf("reference fails at op %d (%s), legacy Apply returns %s", r.ref.FailAt, c, r.obs.Out))
		} else if !r.obs.OutNil {
			r.viol("document-on-failure", "document-on-failure:"+k, fmt.Sprintf("error %q with document %q", r.obs.Err, r.obs.Out))
		}
		// the failing operation need not be the last one: with further operations behind it - aimed at the very
		// location it named - the patch must still fail and return no document
		if r.ref.FailAt == len(r.ops)-1 && r.obs.Err != "" && (k == "remove" || k == "move") {
			base := r.ops
			for _, x := range extensionAt(base[len(base)-1]) {
				r.ops = append(append([]r69.Op(nil), base...), x)
				o2 := r.exec("")
				r.ctx.Count("extension_runs", 1)
				if o2.Panic != "" {
					r.viol("panic", "panic:"+impl.PanicSite(o2.Panic), o2.Panic)
				} else if o2.Err == "" || !o2.OutNil {
					r.viol("later-op-changes-outcome", "later-op-changes-outcome:"+k+"+"+x.Kind, fmt.Sprintf("the patch fails at its last operation (%s); with one more operation behind it (%s) legacy Apply returns err=%q out=%q", c, x, o2.Err, o2.Out))
				}
			}
			r.ops = base
		}
		return
	}
	judgeResult(r, false)
}

// presencePhase (C08): documents that repeat a member name have no reference value, but "an operation
// that cannot be applied fails" still needs ONE notion of whether a member is there. After k removes of a
// member (k = 0..3) the four operations that need it to exist - remove, copy from it, move from it,
// replace - must all succeed or all fail. The library is compared with itself; nothing is assumed
// about which of the repeated members counts.
func presencePhase() *seqProp {
	docs := []string{`{"a":1,"b":2,"a":3}`, `{"a":1,"a":1}`, `{"o":{"k":1,"\u006b":2,"x":true}}`, `[0,{"a":1,"a":2}]`, `{"a":null,"a":1,"b":{"a":1,"a":null}}`,
		`{"\ud800":1,"\udc00":2}`, `{"a":1,"b":2}`, `{"a":{"a":1,"a":2},"a":{"a":3}}`}
	ptrs := map[string][]string{docs[0]: {"/a", "/b"}, docs[1]: {"/a"}, docs[2]: {"/o/k", "/o/x"}, docs[3]: {"/1/a"}, docs[4]: {"/a", "/b/a"},
		docs[5]: {"/\ufffd"}, docs[6]: {"/a", "/c"}, docs[7]: {"/a", "/a/a"}}
	p := &seqProp{ID: "C08", Opts: []r69.Options{{Neg: true, EscapeHTML: true}, {Neg: false, EscapeHTML: false}},
		Rule: "PRESENCE on 8 documents with REPEATED member names (no value oracle): after k = 0..3 removes of a member, remove / copy-from / move-from / replace of it must all succeed or all fail, and a failure returns no document"}
	p.Scripts = func() []seqScript {
		var out []seqScript
		for _, d := range docs {
			for _, ptr := range ptrs[d] {
				var pre []r69.Op
				for k := 0; k <= 3; k++ {
					out = append(out, seqScript{d, append(append([]r69.Op(nil), pre...), r69.Op{Kind: "remove", Path: ptr})})
					pre = append(pre, r69.Op{Kind: "remove", Path: ptr})
				}
			}
		}
		return out
	}
	p.Judge = func(r *seqRun) {
		base := r.ops
		last := base[len(base)-1]
		outcome := map[string]impl.Obs{"remove": r.obs}
		dest := "/zzq"
		if r.doc.K == rj.Arr {
			dest = "/-"
		}
		for _, alt := range []r69.Op{{Kind: "copy", From: last.Path, Path: dest}, {Kind: "move", From: last.Path, Path: dest}, {Kind: "replace", Path: last.Path, Value: rj.MustParse(`1`), HasValue: true}} {
			r.ops = append(append([]r69.Op(nil), base[:len(base)-1]...), alt)
			outcome[alt.Kind] = r.exec("")
		}
		r.ops = base
		r.ctx.Count("presence_groups", 1)
		for k, o := range outcome {
			if o.Panic != "" {
				r.viol("panic", "panic:"+impl.PanicSite(o.Panic), k+": "+o.Panic)
				return
			}
			if o.Err != "" && !o.OutNil {
				r.viol("document-on-failure", "document-on-failure:"+k, fmt.Sprintf("%s failed with %q and a document %q", k, o.Err, o.Out))
			}
		}
		ok := outcome["remove"].Err == ""
		for _, k := range []string{"copy", "move", "replace"} {
			if (outcome[k].Err == "") != ok {
				r.viol("presence-disagrees", "presence-disagrees:remove-vs-"+k, fmt.Sprintf("after %d earlier removes of %s: remove err=%q but %s err=%q - the library has two answers to whether the member is there", len(base)-1, last.Path, outcome["remove"].Err, k, outcome[k].Err))
			}
		}
	}
	return p
}
