//go:build shim

package main

import (
	"fmt"
	"os"
	"runtime/pprof"
	"time"

	zs "github.com/evanphx/json-patch/v5/zzvsync"
)

func init() {
	extraCommands["xbench"] = func(args []string) {
		w := newAPIWorld()
		ctl := &seqCtl{}
		zs.SetController(ctl)
		for i := range w.calls {
			w.outcome(i)
		}
		if len(args) > 0 && args[0] == "prof" {
			f, _ := os.Create("/var/tmp/vb/cpu.prof")
			pprof.StartCPUProfile(f)
			defer pprof.StopCPUProfile()
		}
		t0 := time.Now()
		n := 0
		var d string
		for time.Since(t0) < time.Second {
			d = globalsDump()
			n++
		}
		fmt.Printf("globalsDump: %d bytes, %.1f us each\n", len(d), float64(time.Since(t0).Microseconds())/float64(n))
		t0 = time.Now()
		n = 0
		for time.Since(t0) < time.Second {
			w.inputsIntact()
			n++
		}
		fmt.Printf("inputsIntact: %.1f us each\n", float64(time.Since(t0).Microseconds())/float64(n))
		for i := range w.calls {
			t0 = time.Now()
			n = 0
			for time.Since(t0) < 200*time.Millisecond {
				w.outcome(i)
				n++
			}
			fmt.Printf("%-50s %.1f us\n", w.calls[i].Name, float64(time.Since(t0).Microseconds())/float64(n))
		}
		if len(args) > 0 && args[0] == "dump" {
			fmt.Println(d)
		}
	}
}
