//go:build shim

package main

import (
	"fmt"
	"os"
	"runtime/pprof"
	"strings"
	"time"

	zs "github.com/evanphx/json-patch/v5/zzvsync"
)

func init() {
	extraCommands["xbench"] = func(args []string) {
		w := newAPIWorld()
		ctl := &seqCtl{}
		zs.SetController(ctl)
		for i := range w.calls {
			w.outcome(i)
		}
		if len(args) > 0 && args[0] == "prof" {
			f, _ := os.Create("/var/tmp/vb/cpu.prof")
			pprof.StartCPUProfile(f)
			defer pprof.StopCPUProfile()
		}
		t0 := time.Now()
		n := 0
		var d string
		for time.Since(t0) < time.Second {
			d = globalsDump()
			n++
		}
		fmt.Printf("globalsDump: %d bytes, %.1f us each\n", len(d), float64(time.Since(t0).Microseconds())/float64(n))
		t0 = time.Now()
		n = 0
		for time.Since(t0) < time.Second {
			w.inputsIntact()
			n++
		}
		fmt.Printf("inputsIntact: %.1f us each\n", float64(time.Since(t0).Microseconds())/float64(n))
		for i := range w.calls {
			t0 = time.Now()
			n = 0
			for time.Since(t0) < 200*time.Millisecond {
				w.outcome(i)
				n++
			}
			fmt.Printf("%-50s %.1f us\n", w.calls[i].Name, float64(time.Since(t0).Microseconds())/float64(n))
		}
		if len(args) > 0 && args[0] == "dump" {
			fmt.Println(d)
		}
	}
}

func init() {
	extraCommands["residual"] = func(args []string) {
		w := newAPIWorld()
		zs.SetController(&seqCtl{})
		zs.Reset()
		prev := globalsDump()
		for _, i := range w.menu {
			w.outcome(i)
			zs.Reset()
			d := globalsDump()
			if d != prev {
				a, b := strings.Split(prev, "\n"), strings.Split(d, "\n")
				for k := range a {
					if k < len(b) && a[k] != b[k] {
						x, y := a[k], b[k]
						j := 0
						for j < len(x) && j < len(y) && x[j] == y[j] {
							j++
						}
						lo := j - 60
						if lo < 0 {
							lo = 0
						}
						fmt.Printf("%s:\n   - %s\n   + %s\n", w.calls[i].Name, clip(x[lo:], 160), clip(y[lo:], 160))
						break
					}
				}
			}
			prev = d
		}
	}
}
