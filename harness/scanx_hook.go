//go:build !nohooks

package main

import (
	"fmt"

	zj "github.com/evanphx/json-patch/v5/zzverifjson"

	"verif.local/h/core"
	rj "verif.local/h/refjson"
)

// E3 scanx: synchronous product of the library's real scanner (cloned and
// single-stepped through the injected wrapper) with the reference pushdown
// recogniser; BFS over all 256 byte values from every reachable product state,
// stacks followed to depth D. In every reachable state end-of-input acceptance
// must agree. Decides language equality for inputs of every length, nesting <= D.
func runScanx(ctx *core.Ctx, D int) {
	type node struct {
		s    *zj.Scan
		p    *rj.PDA
		path []byte
	}
	viol := func(n node, clause, detail string) {
		ctx.Violate(core.Violation{Property: "C16", Clause: clause, Key: "C16:scanner-" + clause, Detail: detail, Engine: "scanx",
			Case: core.J(MergeCase{Lib: "v5", Func: "codec", Args: []string{string(n.path), ""}})})
	}
	start := node{zj.NewScan(), rj.NewPDA(), nil}
	seen := map[string]bool{start.s.Key() + "|" + start.p.Key(): true}
	queue := []node{start}
	var states, trans, cut int64
	for len(queue) > 0 {
		n := queue[0]
		queue = queue[1:]
		states++
		if got, want := n.s.Accepts(), !n.p.Dead() && n.p.Accepts(); got != want {
			viol(n, "language", fmt.Sprintf("after %q the scanner accepts end of input = %v, RFC 8259 says %v", n.path, got, want))
			if ctx.Rep.NViol > 50 {
				break
			}
		}
		for b := 0; b < 256; b++ {
			s2, p2 := n.s.Clone(), n.p.Clone()
			isErr := s2.Step(byte(b))
			p2.Step(byte(b))
			trans++
			if s2.Depth() > D || p2.Depth() > D {
				cut++
				continue
			}
			k := s2.Key() + "|" + p2.Key()
			if seen[k] {
				continue
			}
			seen[k] = true
			if isErr && p2.Dead() {
				// both sinks: check the sink property once, do not expand further
				s3 := s2.Clone()
				if !s3.Step(' ') || s3.Accepts() {
					viol(node{s2, p2, append(append([]byte(nil), n.path...), byte(b))}, "error-not-sink", "the scanner left its error state")
				}
				states++
				continue
			}
			queue = append(queue, node{s2, p2, append(append([]byte(nil), n.path...), byte(b))})
		}
	}
	ctx.Count("scanx_product_states", states)
	ctx.Count("scanx_transitions", trans)
	ctx.Count("scanx_cut_edges_beyond_stack_bound", cut)
	ctx.Rep.States += states
	ctx.Rep.Trans += trans
	ctx.Rep.Extra["scanx"] = fmt.Sprintf("product of real scanner x reference PDA: %d states, %d transitions (all 256 bytes from every state), stack bound %d, %d pushes beyond the bound cut", states, trans, D, cut)
	ctx.Sample(map[string]interface{}{"scanx_state_example": start.s.Key() + " | " + start.p.Key()}, 12)
}
