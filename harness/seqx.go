package main

import (
	"encoding/json"
	"fmt"
	"strings"
	"sync/atomic"

	"verif.local/h/core"
	"verif.local/h/impl"
	r69 "verif.local/h/ref6902"
	rj "verif.local/h/refjson"
)

// E1 seqx: all RFC 6902 operation sequences up to a depth, on the real code,
// judged against the reference evaluator.

type OpJ struct {
	Kind  string `json:"op"`
	Path  string `json:"path"`
	From  string `json:"from,omitempty"`
	Value string `json:"value,omitempty"` // JSON text; "" = absent
}

type SeqCase struct {
	Lib         string      `json:"lib"` // v5 | v4
	Doc         string      `json:"doc"`
	Ops         []OpJ       `json:"ops"`
	Patch       string      `json:"patch_text"`
	Opt         r69.Options `json:"options"`
	Indent      string      `json:"indent,omitempty"`
	UseDefaults bool        `json:"use_package_defaults,omitempty"`
	PkgLimit    int64       `json:"v5_package_default_copy_limit,omitempty"`
}

func opsToJ(ops []r69.Op) []OpJ {
	out := make([]OpJ, len(ops))
	for i, o := range ops {
		out[i] = OpJ{Kind: o.Kind, Path: o.Path, From: o.From}
		if o.HasValue {
			out[i].Value = string(rj.Compact(o.Value, rj.PrintOpts{KeepLits: true, KeepNameLits: true}))
		}
	}
	return out
}

func jToOps(js []OpJ) ([]r69.Op, error) {
	out := make([]r69.Op, len(js))
	for i, j := range js {
		out[i] = r69.Op{Kind: j.Kind, Path: j.Path, From: j.From}
		if j.Value != "" {
			v, err := rj.Parse([]byte(j.Value))
			if err != nil {
				return nil, err
			}
			out[i].Value, out[i].HasValue = v, true
		}
	}
	return out, nil
}

// seqRun is one execution: a case, the reference verdict, the observation.
type seqRun struct {
	p    *seqProp
	ctx  *core.Ctx
	w    *core.Worker
	doc  *rj.Value
	dtxt string
	ops  []r69.Op
	opt  r69.Options
	ref  r69.Result
	obs  impl.Obs
	out  *rj.Value // parsed output (nil if not parsed / not successful)
}

func (r *seqRun) kase() SeqCase {
	lib := "v5"
	if r.p.Legacy {
		lib = "v4"
	}
	return SeqCase{Lib: lib, Doc: r.dtxt, Ops: opsToJ(r.ops), Patch: r69.PatchText(r.ops), Opt: r.opt,
		UseDefaults: r.p.UseDefaults, PkgLimit: r.p.PkgLimit}
}

func (r *seqRun) lastKind() string {
	if len(r.ops) == 0 {
		return "empty"
	}
	i := len(r.ops) - 1
	if r.ref.FailAt >= 0 {
		i = r.ref.FailAt
	}
	return r.ops[i].Kind
}

func (r *seqRun) viol(clause, key, detail string) {
	c := r.kase()
	r.ctx.Violate(core.Violation{Property: r.p.ID, Clause: clause, Key: r.p.ID + ":" + key, Detail: detail,
		Engine: "seqx", Case: core.J(c), GoTest: seqGoTest(c)})
}

func seqGoTest(c SeqCase) string {
	pkg := `jsonpatch "github.com/evanphx/json-patch/v5"`
	apply := fmt.Sprintf("p.ApplyWithOptions([]byte(%q), &jsonpatch.ApplyOptions{SupportNegativeIndices: %v, AccumulatedCopySizeLimit: %d, AllowMissingPathOnRemove: %v, EnsurePathExistsOnAdd: %v, EscapeHTML: %v})",
		c.Doc, c.Opt.Neg, c.Opt.Limit, c.Opt.AllowMissing, c.Opt.Ensure, c.Opt.EscapeHTML)
	if c.Lib == "v4" {
		pkg = `jsonpatch "github.com/evanphx/json-patch"`
		apply = fmt.Sprintf("p.Apply([]byte(%q)) // with jsonpatch.SupportNegativeIndices=%v, AccumulatedCopySizeLimit=%d", c.Doc, c.Opt.Neg, c.Opt.Limit)
	}
	return fmt.Sprintf("// import %s\nfunc TestReplay(t *testing.T) {\n\tp, err := jsonpatch.DecodePatch([]byte(%q))\n\tif err != nil { t.Fatal(err) }\n\tout, err := %s\n\tt.Logf(\"out=%%s err=%%v\", out, err)\n}\n", pkg, c.Patch, apply)
}

// exec runs the library on ops and fills r.obs / r.out.
func (r *seqRun) exec(indent string) impl.Obs {
	patch := []byte(r69.PatchText(r.ops))
	call := impl.Call{Doc: []byte(r.dtxt), Patch: patch, Opt: r.opt, Indent: indent, UseDefaults: r.p.UseDefaults}
	r.w.Tick(func() string { b, _ := json.Marshal(r.kase()); return string(b) })
	atomic.AddInt64(&nExec, 1)
	if r.p.Legacy {
		return impl.V4Apply(call)
	}
	return impl.V5Apply(call)
}

var nExec int64

// seqProp configures one property's exploration.
type seqProp struct {
	ID          string
	Legacy      bool
	UseDefaults bool
	Docs        []string
	Opts        []r69.Options
	Depth       int
	Alpha       []*AlphaCfg // per level (last one repeats)
	Judge       func(r *seqRun)
	Rule        string
	// Filter says whether a sequence is worth running at all (property domain)
	Filter func(ops []r69.Op) bool
	// Scripts: explicit (document, operation list) cases run INSTEAD of the depth-first enumeration:
	// long patches built from a repeated step and one probe (the patch-length dimension)
	Scripts func() []seqScript
	// PkgLimit: value of the v5 package-level AccumulatedCopySizeLimit while the
	// phase runs with explicit per-call options (which must take precedence)
	PkgLimit int64
}

func (p *seqProp) alpha(level int) *AlphaCfg {
	if len(p.Alpha) == 0 {
		return &AlphaCfg{}
	}
	if level >= len(p.Alpha) {
		level = len(p.Alpha) - 1
	}
	return p.Alpha[level]
}

func stateKey(opt r69.Options, d *rj.Value) string {
	return optString(opt) + "|" + string(rj.Compact(d, rj.PrintOpts{KeepLits: true, KeepNameLits: true}))
}

type seqScript struct {
	Doc string
	Ops []r69.Op
}

// runScripts judges every explicit case of p.Scripts under every option set of p.
func runScripts(ctx *core.Ctx, p *seqProp) {
	scripts := p.Scripts()
	trans := ctx.Counter("sequences")
	nscr := ctx.Counter("script_cases")
	docs := map[string]*rj.Value{}
	for _, sc := range scripts {
		if docs[sc.Doc] == nil {
			docs[sc.Doc] = rj.MustParse(sc.Doc)
		}
	}
	for _, opt := range p.Opts {
		opt := opt
		impl.SetGlobals(p.Legacy, p.UseDefaults, opt)
		var restore func()
		if !p.Legacy && !p.UseDefaults {
			restore = impl.SetV5HostileDefaults(opt)
		}
		ctx.Parallel(len(scripts), func(w *core.Worker, i int) {
			sc := scripts[i]
			if p.Filter != nil && !p.Filter(sc.Ops) {
				return
			}
			r := &seqRun{p: p, ctx: ctx, w: w, doc: docs[sc.Doc], dtxt: sc.Doc, ops: sc.Ops, opt: opt}
			r.ref = r69.Apply(r.doc, sc.Ops, opt)
			r.obs = r.exec("")
			atomic.AddInt64(trans, 1)
			atomic.AddInt64(nscr, 1)
			r.classify()
			p.Judge(r)
			if r.ref.OK() {
				ctx.AddState(stateKey(opt, r.ref.Doc))
			}
		})
		if restore != nil {
			restore()
		}
	}
	ctx.Rep.Trans = atomic.LoadInt64(trans)
	ctx.Rep.Validated = atomic.LoadInt64(&nExec)
	ctx.Rep.Evals = ctx.Rep.Validated
	ctx.Rep.Nontrivial = atomic.LoadInt64(ctx.Counter("in_domain_sequences"))
}

// runSeq explores p exhaustively to p.Depth.
func runSeq(ctx *core.Ctx, p *seqProp) {
	if p.Scripts != nil {
		runScripts(ctx, p)
		return
	}
	type unit struct {
		doc  *rj.Value
		dtxt string
		opt  r69.Options
		op   *r69.Op // nil: the empty patch
	}
	trans := ctx.Counter("sequences")
	for _, opt := range p.Opts {
		var units []unit
		for _, dt := range p.Docs {
			d, err := rj.Parse([]byte(dt))
			if err != nil {
				panic("bad harness document " + dt)
			}
			ctx.AddState(stateKey(opt, d))
			units = append(units, unit{d, dt, opt, nil})
			if p.Depth >= 1 {
				sig := Sigma(d, p.alpha(0))
				for i := range sig {
					units = append(units, unit{d, dt, opt, &sig[i]})
				}
			}
		}
		impl.SetGlobals(p.Legacy, p.UseDefaults, opt)
		if !p.Legacy && !p.UseDefaults {
			// per-call options must take precedence over the package defaults in every respect:
			// every per-call phase runs with the defaults set to the opposite
			restore := impl.SetV5HostileDefaults(opt)
			defer restore()
			ctx.Rep.Extra["v5_package_defaults_during_per_call_phases"] = "set to the opposite of the per-call options (SupportNegativeIndices negated, AccumulatedCopySizeLimit=1)"
		}
		ctx.Parallel(len(units), func(w *core.Worker, i int) {
			u := units[i]
			var ops []r69.Op
			if u.op != nil {
				ops = []r69.Op{*u.op}
			}
			var rec func(ops []r69.Op)
			rec = func(ops []r69.Op) {
				if p.Filter != nil && !p.Filter(ops) {
					return
				}
				r := &seqRun{p: p, ctx: ctx, w: w, doc: u.doc, dtxt: u.dtxt, ops: ops, opt: u.opt}
				r.ref = r69.Apply(u.doc, ops, u.opt)
				r.obs = r.exec("")
				atomic.AddInt64(trans, 1)
				r.classify()
				p.Judge(r)
				if len(ops) == 1 || (len(ops) == 2 && ops[0].Kind != ops[1].Kind) {
					ctx.Sample(r.summary(), 6)
				}
				if r.ref.OK() {
					ctx.AddState(stateKey(u.opt, r.ref.Doc))
					if len(ops) < p.Depth && len(ops) > 0 {
						for _, nx := range SigmaFrom(r.ref.Doc, p.alpha(len(ops)), u.doc) {
							if ctx.Expired() {
								ctx.Cap("internal deadline reached inside a work unit")
								return
							}
							rec(append(append([]r69.Op(nil), ops...), nx))
						}
					}
				}
			}
			rec(ops)
		})
	}
	ctx.Rep.Trans = atomic.LoadInt64(trans)
	ctx.Rep.Validated = atomic.LoadInt64(&nExec)
	ctx.Rep.Evals = ctx.Rep.Validated
	ctx.Rep.Nontrivial = atomic.LoadInt64(ctx.Counter("in_domain_sequences"))
}

// classify counts outcome classes so vacuity is visible in the evidence.
func (r *seqRun) classify() {
	switch {
	case r.ref.DontCare != "":
		why := r.ref.DontCare
		if i := strings.IndexAny(why, ":"); i > 0 {
			why = why[:i]
		}
		if len(why) > 60 {
			why = why[:60]
		}
		r.ctx.Count("dontcare/"+why, 1)
	case r.ref.FailAt >= 0:
		r.ctx.Count("ref_fail/"+r.ref.Cause.String(), 1)
	default:
		r.ctx.Count("ref_ok", 1)
	}
	if r.ref.DontCare == "" {
		r.ctx.Count("in_domain_sequences", 1)
	}
	if r.obs.Panic != "" {
		r.ctx.Count("impl_panic", 1)
	}
}

func (r *seqRun) summary() map[string]interface{} {
	m := map[string]interface{}{"doc": r.dtxt, "patch": r69.PatchText(r.ops), "options": optString(r.opt)}
	switch {
	case r.ref.DontCare != "":
		m["reference"] = "DontCare: " + r.ref.DontCare
	case r.ref.FailAt >= 0:
		m["reference"] = fmt.Sprintf("Fail(op %d, %s)", r.ref.FailAt, r.ref.Cause)
	default:
		m["reference"] = rj.Text(r.ref.Doc)
	}
	if r.obs.Err != "" {
		m["library"] = "error: " + r.obs.Err
	} else if r.obs.Panic != "" {
		m["library"] = "panic: " + r.obs.Panic
	} else {
		m["library"] = string(r.obs.Out)
	}
	return m
}

// parseOut parses a successful output once.
func (r *seqRun) parseOut() (*rj.Value, bool) {
	if r.out != nil {
		return r.out, true
	}
	v, err := rj.Parse(r.obs.Out)
	if err != nil {
		return nil, false
	}
	r.out = v
	return v, true
}

// ---- the shared in-domain result oracle (C01, C18; base of the others) ----

// judgeResult checks success-iff-reference-success and the result value.
// ordered: also demand reference member order (C05).
func judgeResult(r *seqRun, ordered bool) (inDomain bool) {
	if r.ref.DontCare != "" {
		return false
	}
	if r.obs.Panic != "" {
		r.viol("panic", "panic:"+impl.PanicSite(r.obs.Panic), "library panicked on an in-domain case: "+r.obs.Panic)
		return true
	}
	if r.obs.DecodeErr != "" {
		r.viol("decode-rejected", "decode-rejected:"+r.lastKind(), "DecodePatch rejected a well-formed patch: "+r.obs.DecodeErr)
		return true
	}
	if r.ref.OK() {
		if r.obs.Err != "" {
			r.viol("spurious-failure", "spurious-failure:"+r.lastKind(), "reference succeeds with "+rj.Text(r.ref.Doc)+" but the library fails: "+r.obs.Err)
			return true
		}
		out, ok := r.parseOut()
		if !ok {
			r.viol("output-not-json", "output-not-json:"+r.lastKind(), fmt.Sprintf("output %q is not well-formed JSON", r.obs.Out))
			return true
		}
		if !rj.Equal(out, r.ref.Doc) {
			r.viol("wrong-result", "wrong-result:"+r.lastKind(), "reference "+rj.Text(r.ref.Doc)+" library "+string(r.obs.Out))
			return true
		}
		if ordered && !rj.EqualOrdered(out, r.ref.Doc) {
			r.viol("wrong-order", "wrong-order:"+r.lastKind(), "reference order "+rj.Text(r.ref.Doc)+" library "+string(r.obs.Out))
		}
		return true
	}
	if r.obs.Err == "" {
		r.viol("missed-failure", "missed-failure:"+r.lastKind()+":"+r.ref.Cause.String(),
			fmt.Sprintf("reference fails at op %d (%s) but the library returns %s", r.ref.FailAt, r.ref.Cause, r.obs.Out))
	}
	return true
}

func implSet(p *seqProp, o r69.Options) { impl.SetGlobals(p.Legacy, p.UseDefaults, o) }
