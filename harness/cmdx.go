package main

import (
	"bytes"
	"encoding/json"
	"fmt"
	"os"
	"os/exec"
	"path/filepath"
	"strings"
	"sync/atomic"
	"syscall"
	"time"
	"unsafe"

	"verif.local/h/core"
	"verif.local/h/impl"
	r69 "verif.local/h/ref6902"
	rj "verif.local/h/refjson"
)

// E7 cmdx: the json-patch command as a black box. Every list of 0..n -p
// arguments over a menu of patch files x every stdin document is run as a real
// process (binary built from the working tree by the driver) and judged against
// (a) the fold of the library's own DecodePatch/Apply over the arguments in
// command-line order, byte for byte, and (b) the reference evaluator's fold.

type cmdFile struct {
	Name    string
	Content string // "" with Missing/Dir below
	Missing bool
	Dir     bool
	// derived
	ops     []r69.Op
	refOK   bool // decodable per the C11 predicate and readable by the reference
	decodes bool // library DecodePatch accepts it
}

var cmdMenu = []cmdFile{
	{Name: "ok1.json", Content: `[{"op":"add","path":"/k","value":[1]}]`},
	{Name: "ok2.json", Content: `[{"op":"add","path":"/k","value":{"n":1.0}},{"op":"add","path":"/z","value":"<%s %d 100%"}]`},
	{Name: "after1.json", Content: `[{"op":"test","path":"/k/0","value":1},{"op":"add","path":"/k/-","value":2}]`},
	{Name: "move.json", Content: `[{"op":"move","from":"/a","path":"/m"}]`},
	{Name: "failtest.json", Content: `[{"op":"add","path":"/q","value":1},{"op":"test","path":"/q","value":2}]`},
	{Name: "malformed.json", Content: `[{"op":"add","path":"/k","value":1}`},
	{Name: "badop.json", Content: `[{"op":"frob","path":"/k"}]`},
	{Name: "trailing.json", Content: `[{"op":"add","path":"/g","value":1}] x`},
	{Name: "twoarrays.json", Content: `[{"op":"add","path":"/g","value":1}][{"op":"add","path":"/h","value":2}]`},
	{Name: "missing.json", Missing: true},
	{Name: "dir.json", Dir: true},
	{Name: "empty.json", Content: ``},
	{Name: "noops.json", Content: ` [ ] `},
	{Name: "rootnull.json", Content: `[{"op":"replace","path":"","value":null}]`},
	{Name: "rma.json", Content: `[{"op":"remove","path":"/a"}]`},
	{Name: "testlt.json", Content: `[{"op":"test","path":"/z","value":"<%s %d 100%"}]`},
	{Name: "rootarr.json", Content: `[{"op":"replace","path":"","value":[{"a":1}]}]`},
	{Name: "apA.json", Content: `[{"op":"add","path":"/-","value":"a"}]`},
	{Name: "apB.json", Content: `[{"op":"add","path":"/-","value":"b"}]`},
	{Name: "apC.json", Content: `[{"op":"add","path":"/0","value":"c"},{"op":"test","path":"/0","value":"c"}]`},
}

var cmdStdin = []string{
	`{"a":1,"b":{"c":"s"}}`,
	` {"a" : 1 , "a":2, "z":"<"}`,
	`{"a":"50%","%v":["%!s(MISSING)","\\n%%"]}`,
	" {\n  \"a\" : [ 1 , 2 ] ,\n  \"k\" : [ 1 ]\n }\n",
	`[{"a":1},2]`,
	`{"a":`,
	``,
	`"scalar"`,
	"{\"a\":1}\n{\"a\":2}",
	`[]`,
	// a 100 KB document (pipe buffers, bufio sizes)
	`{"a":[` + strings.Repeat(`{"k":"v<%d"},`, 6000) + `0],"k":[1]}`,
}

type CmdCase struct {
	Binary string   `json:"binary"` // v5 | v4
	Files  []string `json:"patch_files"`
	Texts  []string `json:"patch_file_contents"`
	Long   bool     `json:"long_flag,omitempty"`
	Stdin  string   `json:"stdin"`
	Splits []int    `json:"stdin_delivered_in_pieces_cut_at,omitempty"` // each piece is written only after the command has consumed the one before
}

type cmdObs struct {
	Stdout, Stderr []byte
	Exit           int
	Err            string
}

// feedPieces writes stdin to w cut at the given offsets; a piece is written only once the reader has
// drained the pipe (FIONREAD on the write end = 0) and a short pause has passed, so that the command's
// read returns short - the environment answer a pipe gives when the producer is slower than the consumer.
func feedPieces(w *os.File, stdin string, cuts []int) {
	defer w.Close()
	prev := 0
	for _, c := range append(append([]int(nil), cuts...), len(stdin)) {
		if c <= prev || c > len(stdin) {
			continue
		}
		if _, err := w.WriteString(stdin[prev:c]); err != nil {
			return
		}
		prev = c
		for i := 0; i < 5000; i++ { // horizon 5 s: a command that stops reading is judged on its outcome
			var n int32
			if _, _, e := syscall.Syscall(syscall.SYS_IOCTL, w.Fd(), syscall.TIOCINQ, uintptr(unsafe.Pointer(&n))); e != 0 || n == 0 {
				break
			}
			time.Sleep(time.Millisecond)
		}
		time.Sleep(15 * time.Millisecond)
	}
}

func runCmd(bin, dir string, files []string, long bool, stdin string, cuts ...int) cmdObs {
	var args []string
	for _, f := range files {
		if long {
			args = append(args, "--patch-file="+f)
		} else {
			args = append(args, "-p", f)
		}
	}
	c := exec.Command(bin, args...)
	c.Dir = dir
	var pw *os.File
	if len(cuts) > 0 {
		pr, w, err := os.Pipe()
		if err != nil {
			return cmdObs{Err: err.Error(), Exit: -1}
		}
		c.Stdin, pw = pr, w
		defer pr.Close()
	} else {
		c.Stdin = strings.NewReader(stdin)
	}
	var so, se bytes.Buffer
	c.Stdout, c.Stderr = &so, &se
	done := make(chan error, 1)
	if err := c.Start(); err != nil {
		if pw != nil {
			pw.Close()
		}
		return cmdObs{Err: err.Error(), Exit: -1}
	}
	if pw != nil {
		c.Stdin.(*os.File).Close()
		go feedPieces(pw, stdin, cuts)
	}
	go func() { done <- c.Wait() }()
	select {
	case err := <-done:
		o := cmdObs{Stdout: so.Bytes(), Stderr: se.Bytes()}
		if err != nil {
			if ee, ok := err.(*exec.ExitError); ok {
				o.Exit = ee.ExitCode()
			} else {
				o.Err, o.Exit = err.Error(), -1
			}
		}
		return o
	case <-time.After(60 * time.Second):
		c.Process.Kill()
		return cmdObs{Err: "timeout: the command did not exit within 60s", Exit: -2}
	}
}

func init() {
	checks["C20"] = &check{Engine: "cmdx",
		Run:    runCmdx,
		Replay: func(ctx *core.Ctx, raw json.RawMessage) { cmdReplay(ctx, raw) },
		Budget: map[string]time.Duration{"quick": 100 * time.Second, "thorough": 20 * time.Minute}}
}

type cmdEnv struct {
	dir  string
	bins map[string]string
}

func cmdSetup() (*cmdEnv, error) {
	e := &cmdEnv{bins: map[string]string{}}
	if p := os.Getenv("VERIF_JP5"); p != "" {
		e.bins["v5"] = p
	}
	if p := os.Getenv("VERIF_JP4"); p != "" {
		e.bins["v4"] = p
	}
	if len(e.bins) == 0 {
		return nil, fmt.Errorf("no command binaries (VERIF_JP5 / VERIF_JP4 unset): the driver builds them from the working tree")
	}
	scratch := os.Getenv("VERIF_SCRATCH")
	if scratch == "" {
		scratch = os.TempDir()
	}
	d, err := os.MkdirTemp(scratch, "cmdx-")
	if err != nil {
		return nil, err
	}
	e.dir = d
	for _, f := range cmdMenu {
		p := filepath.Join(d, f.Name)
		switch {
		case f.Missing:
		case f.Dir:
			os.Mkdir(p, 0o755)
		default:
			if err := os.WriteFile(p, []byte(f.Content), 0o644); err != nil {
				return nil, err
			}
		}
	}
	return e, nil
}

// refPatchOps reads a patch file with the independent reader; ok=false if the
// statement's acceptance predicate (C11) rejects it.
func refPatchOps(text string) ([]r69.Op, bool) {
	v, err := rj.Parse([]byte(text))
	if err != nil || v.K != rj.Arr {
		return nil, false
	}
	var ops []r69.Op
	for _, e := range v.A {
		if e.K != rj.Obj {
			return nil, false
		}
		get := func(n string) *rj.Value {
			var out *rj.Value
			for _, m := range e.O {
				if m.Name == n {
					out = m.V
				}
			}
			return out
		}
		k, p := get("op"), get("path")
		if k == nil || k.K != rj.Str || p == nil || p.K != rj.Str {
			return nil, false
		}
		op := r69.Op{Kind: k.S, Path: p.S}
		switch k.S {
		case "add", "replace", "test":
			val := get("value")
			if val == nil {
				return nil, false
			}
			op.Value, op.HasValue = val, true
		case "move", "copy":
			f := get("from")
			if f == nil || f.K != rj.Str {
				return nil, false
			}
			op.From = f.S
		case "remove":
		default:
			return nil, false
		}
		ops = append(ops, op)
	}
	return ops, true
}

type cmdExpect struct {
	fail     bool   // must fail cleanly
	why      string // first reason for failure
	out      []byte // exact stdout on success (library fold)
	refDoc   *rj.Value
	refKnown bool // the reference has an opinion on the value
}

// expect folds the library (exact bytes) and the reference (value) over the files.
func cmdExpected(legacy bool, files []cmdFile, stdin string) cmdExpect {
	var x cmdExpect
	// phase 1: every file must be readable and decodable (the command decodes all
	// of them before it reads stdin)
	for _, f := range files {
		if f.Missing || f.Dir {
			x.fail, x.why = true, "unreadable patch file "+f.Name
			return x
		}
	}
	for _, f := range files {
		if !f.decodes {
			x.fail, x.why = true, "undecodable patch file "+f.Name
			return x
		}
	}
	// phase 2: fold
	cur := []byte(stdin)
	refCur, rerr := rj.Parse([]byte(stdin))
	x.refKnown = rerr == nil && (refCur.K == rj.Obj || refCur.K == rj.Arr) && !rj.HasDup(refCur) // duplicate names: no value oracle
	for _, f := range files {
		if x.refKnown && legacy && strings.Contains(f.Content, `"test"`) && strings.ContainsAny(f.Content, "<>&") {
			x.refKnown = false // the legacy test compares string spellings: HTML characters are outside its stated domain (C18)
		}
		call := impl.Call{Doc: cur, Patch: []byte(f.Content), Opt: r69.Options{Neg: true, EscapeHTML: true}, UseDefaults: true}
		var o impl.Obs
		if legacy {
			o = impl.V4Apply(call)
		} else {
			o = impl.V5Apply(call)
		}
		if o.Panic != "" || o.Err != "" || o.DecodeErr != "" {
			x.fail, x.why = true, "patch "+f.Name+" fails to apply: "+o.Err+o.Panic
			// the reference must agree when it has an opinion
			if x.refKnown && f.refOK {
				r := r69.Apply(refCur, f.ops, r69.Options{Neg: true, EscapeHTML: true})
				if r.OK() {
					x.why = "LIBRARY-FAILS-REFERENCE-SUCCEEDS " + x.why
				}
			}
			return x
		}
		cur = o.Out
		if x.refKnown {
			if !f.refOK {
				x.refKnown = false
			} else {
				r := r69.Apply(refCur, f.ops, r69.Options{Neg: true, EscapeHTML: true})
				switch {
				case r.DontCare != "":
					x.refKnown = false
				case r.FailAt >= 0:
					x.refKnown = false
					x.why = "LIBRARY-SUCCEEDS-REFERENCE-FAILS at " + f.Name
				default:
					refCur = r.Doc
				}
			}
		}
	}
	x.out = cur
	if x.refKnown {
		x.refDoc = refCur
	}
	return x
}

func runCmdx(ctx *core.Ctx, tier string) {
	env, err := cmdSetup()
	if err != nil {
		fmt.Fprintln(os.Stderr, "cmdx:", err)
		os.Exit(2)
	}
	defer os.RemoveAll(env.dir)
	maxLen := 2
	if tier == "thorough" {
		maxLen = 3
	}
	ctx.Rep.Rule = fmt.Sprintf("every list of 0..%d -p arguments (order and repetition included) over %d patch files {two non-commuting valid patches, one applicable only after the first, a move, a failing test, malformed JSON (truncated; a complete patch followed by garbage; two arrays), unknown op, missing file, directory, empty file, empty patch, root-replacing patch} x %d stdin documents {object, object with whitespace, array, malformed, empty, scalar}, "+
		"(+ stdin delivered in pieces cut at 1, n/2, n-1, around 4096, 8192, 32768, 65536: each piece is written only after the command has drained the pipe, so its reads return short), each run as a real process of the binary built from the working tree (v5 cmd and legacy cmd; lists of length <= 1 also with --patch-file=). Oracle: stdout must equal byte for byte the fold of the library's DecodePatch+Apply over the files in command-line order with exit 0 and the value must equal the reference evaluator's fold; "+
		"if any file is unreadable/undecodable or any patch fails to apply: empty stdout, non-empty stderr, exit != 0. states = distinct (binary, stdin, expected outcome); non-trivial = runs with >= 2 patch files", len(cmdMenu), maxLen, len(cmdStdin))
	ctx.Rep.Assume = append(ctx.Rep.Assume, "the expected bytes come from the library linked into the harness (same working tree as the binary); the library itself is judged by C01/C05/C15/C18",
		"with zero patch files the command echoes stdin unchanged (that is the fold over an empty list), also when stdin is not JSON")
	for i := range cmdMenu {
		f := &cmdMenu[i]
		if f.Missing || f.Dir {
			continue
		}
		f.ops, f.refOK = refPatchOps(f.Content)
	}
	type unit struct {
		bin   string
		files []int
		long  bool
		stdin int
		cuts  []int
	}
	var lists [][]int
	var rec func(cur []int)
	rec = func(cur []int) {
		lists = append(lists, append([]int(nil), cur...))
		if len(cur) == maxLen {
			return
		}
		for i := range cmdMenu {
			rec(append(cur, i))
		}
	}
	rec(nil)
	// long lists: the same two valid files alternating 10 and 33 times, and one with a failing file in the middle
	idxOf := func(name string) int {
		for i, f := range cmdMenu {
			if f.Name == name {
				return i
			}
		}
		panic(name)
	}
	for _, n := range []int{10, 33} {
		var l []int
		for i := 0; i < n; i++ {
			l = append(l, idxOf([]string{"ok1.json", "after1.json", "ok2.json"}[i%3]))
		}
		lists = append(lists, l)
		mid := append(append(append([]int(nil), l[:n/2]...), idxOf("failtest.json")), l[n/2:]...)
		lists = append(lists, mid)
	}
	var units []unit
	for _, b := range []string{"v5", "v4"} {
		if env.bins[b] == "" {
			ctx.Cap("binary " + b + " was not built")
			continue
		}
		// which files does this library decode?
		for _, l := range lists {
			for s := range cmdStdin {
				units = append(units, unit{b, l, false, s, nil})
				if len(l) == 1 {
					units = append(units, unit{b, l, true, s, nil})
				}
			}
		}
		// ORDER and REPETITION beyond length 3: every list of up to 5 options over three non-idempotent append
		// patches (a repeat, then another file's first appearance, then that file again ...), on the empty array
		var apLists [][]int
		var recAp func(cur []int)
		recAp = func(cur []int) {
			if len(cur) >= 3 {
				apLists = append(apLists, append([]int(nil), cur...))
			}
			if len(cur) == 5 {
				return
			}
			for _, n := range []string{"apA.json", "apB.json", "apC.json"} {
				recAp(append(cur, idxOf(n)))
			}
		}
		recAp(nil)
		emptyArr := -1
		for si, t := range cmdStdin {
			if t == `[]` {
				emptyArr = si
			}
		}
		for _, l := range apLists {
			units = append(units, unit{b, l, false, emptyArr, nil})
		}
		// positions: a failing / undecodable / missing file as the k-th of k -p options, k around the widths
		// of a byte and of two; and the same lists without the failing file
		for _, k := range []int{255, 256, 257, 512, 513} {
			var l []int
			for i := 0; i < k-1; i++ {
				l = append(l, idxOf([]string{"ok1.json", "after1.json", "ok2.json"}[i%3]))
			}
			units = append(units, unit{b, l, false, 0, nil})
			for _, bad := range []string{"failtest.json", "malformed.json", "missing.json"} {
				units = append(units, unit{b, append(append([]int(nil), l...), idxOf(bad)), false, 0, nil})
			}
		}
		// delivery: stdin arriving in pieces (every read of the command returns short), for the echo, one
		// patch and a failing patch
		for s, text := range cmdStdin {
			var cutSets [][]int
			n := len(text)
			switch {
			case n < 2:
				continue
			case n < 200:
				cutSets = [][]int{{1}, {n / 2}, {n - 1}, {1, n - 1}}
				if strings.Contains(text, "\n{") {
					cutSets = append(cutSets, []int{strings.Index(text, "\n{")}, []int{strings.Index(text, "\n{") + 1})
				}
			default:
				cutSets = [][]int{{512}, {4095}, {4096}, {4097}, {8192}, {32768}, {65536}, {4096, 8192, 12288}, {n - 1}, {100, 5000, 70000}}
			}
			for _, cuts := range cutSets {
				for _, l := range [][]int{nil, {idxOf("ok1.json")}, {idxOf("failtest.json")}, {idxOf("ok1.json"), idxOf("after1.json")}} {
					units = append(units, unit{b, l, false, s, cuts})
				}
			}
		}
	}
	decodes := map[string][]bool{}
	for _, b := range []string{"v5", "v4"} {
		d := make([]bool, len(cmdMenu))
		for i, f := range cmdMenu {
			if f.Missing || f.Dir {
				continue
			}
			call := impl.Call{Doc: []byte(`{}`), Patch: []byte(f.Content), UseDefaults: true}
			var o impl.Obs
			if b == "v4" {
				o = impl.V4Apply(call)
			} else {
				o = impl.V5Apply(call)
			}
			d[i] = o.DecodeErr == "" && (o.Panic == "" || true)
			if o.DecodeErr == "" != cmdMenu[i].refOK && strings.TrimSpace(f.Content) != "null" {
				ctx.Count("decode_disagrees_with_reference/"+b+"/"+f.Name, 1)
			}
		}
		decodes[b] = d
	}
	impl.SetGlobals(true, true, r69.Options{Neg: true})
	impl.SetGlobals(false, true, r69.Options{Neg: true})
	runs := ctx.Counter("process_runs")
	var nontrivial, okRuns, failRuns int64
	ctx.Parallel(len(units), func(w *core.Worker, i int) {
		u := units[i]
		files := make([]cmdFile, len(u.files))
		var names, texts []string
		for k, fi := range u.files {
			files[k] = cmdMenu[fi]
			files[k].decodes = decodes[u.bin][fi]
			names = append(names, cmdMenu[fi].Name)
			texts = append(texts, cmdMenu[fi].Content)
		}
		kase := CmdCase{Binary: u.bin, Files: names, Texts: texts, Long: u.long, Stdin: cmdStdin[u.stdin], Splits: u.cuts}
		w.Tick(func() string { b, _ := json.Marshal(kase); return string(b) })
		x := cmdExpected(u.bin == "v4", files, cmdStdin[u.stdin])
		o := runCmd(env.bins[u.bin], env.dir, names, u.long, cmdStdin[u.stdin], u.cuts...)
		atomic.AddInt64(runs, 1)
		atomic.AddInt64(&nExec, 1)
		if len(u.files) >= 2 {
			atomic.AddInt64(&nontrivial, 1)
		}
		if x.fail {
			atomic.AddInt64(&failRuns, 1)
		} else {
			atomic.AddInt64(&okRuns, 1)
		}
		ctx.AddState(fmt.Sprintf("%s|%d|%v|%s|%s", u.bin, u.stdin, x.fail, x.why, x.out))
		judgeCmd(ctx, kase, x, o)
		if len(u.files) == 2 && u.files[0] != u.files[1] && u.stdin == 0 {
			ctx.Sample(map[string]interface{}{"binary": u.bin, "args": names, "stdin": cmdStdin[u.stdin],
				"expected": expectText(x), "exit": o.Exit, "stdout": string(o.Stdout), "stderr": trunc(string(o.Stderr), 120)}, 6)
		}
	})
	ctx.Rep.Trans = atomic.LoadInt64(runs)
	ctx.Rep.Validated = ctx.Rep.Trans
	ctx.Rep.Evals = ctx.Rep.Trans
	ctx.Rep.Nontrivial = atomic.LoadInt64(&nontrivial)
	ctx.Count("expected_success_runs", okRuns)
	ctx.Count("expected_failure_runs", failRuns)
}

func trunc(s string, n int) string {
	if len(s) > n {
		return s[:n] + "..."
	}
	return s
}

func expectText(x cmdExpect) string {
	if x.fail {
		return "FAIL: " + x.why
	}
	return string(x.out)
}

func judgeCmd(ctx *core.Ctx, k CmdCase, x cmdExpect, o cmdObs) {
	viol := func(clause, key, detail string) {
		ctx.Violate(core.Violation{Property: "C20", Clause: clause, Key: "C20:" + key + ":" + k.Binary, Detail: detail, Engine: "cmdx", Case: core.J(k)})
	}
	if o.Err != "" {
		viol("did-not-run", "did-not-run", o.Err)
		return
	}
	if strings.HasPrefix(x.why, "LIBRARY-") {
		viol("library-vs-reference", "library-vs-reference", x.why)
	}
	if x.fail {
		ctx.Count("judged_failure", 1)
		if o.Exit == 0 {
			viol("exit-zero-on-failure", "exit-zero-on-failure", fmt.Sprintf("%s, yet exit status 0; stdout=%q stderr=%q", x.why, o.Stdout, o.Stderr))
		}
		if len(o.Stdout) != 0 {
			viol("stdout-on-failure", "stdout-on-failure", fmt.Sprintf("%s, yet stdout=%q", x.why, o.Stdout))
		}
		if len(bytes.TrimSpace(o.Stderr)) == 0 {
			viol("silent-failure", "silent-failure", fmt.Sprintf("%s, yet nothing on stderr (exit %d)", x.why, o.Exit))
		}
		return
	}
	ctx.Count("judged_success", 1)
	if o.Exit != 0 {
		viol("spurious-failure", "spurious-failure", fmt.Sprintf("the library applies these patches in order and gives %q, but the command exits %d: %s", x.out, o.Exit, o.Stderr))
		return
	}
	if !bytes.Equal(o.Stdout, x.out) {
		viol("wrong-output", "wrong-output", fmt.Sprintf("library fold in command-line order = %q, stdout = %q", x.out, o.Stdout))
		return
	}
	if x.refDoc != nil {
		got, err := rj.Parse(o.Stdout)
		if err != nil || !rj.Equal(got, x.refDoc) {
			viol("wrong-value", "wrong-value", fmt.Sprintf("reference fold = %s, stdout = %q", rj.Text(x.refDoc), o.Stdout))
		}
		ctx.Count("judged_against_reference", 1)
	}
}

func cmdReplay(ctx *core.Ctx, raw json.RawMessage) {
	var k CmdCase
	if err := json.Unmarshal(raw, &k); err != nil {
		panic(err)
	}
	env, err := cmdSetup()
	if err != nil {
		fmt.Fprintln(os.Stderr, "cmdx:", err)
		os.Exit(2)
	}
	defer os.RemoveAll(env.dir)
	var files []cmdFile
	for _, n := range k.Files {
		for _, f := range cmdMenu {
			if f.Name == n {
				if !f.Missing && !f.Dir {
					f.ops, f.refOK = refPatchOps(f.Content)
					call := impl.Call{Doc: []byte(`{}`), Patch: []byte(f.Content), UseDefaults: true}
					if k.Binary == "v4" {
						f.decodes = impl.V4Apply(call).DecodeErr == ""
					} else {
						f.decodes = impl.V5Apply(call).DecodeErr == ""
					}
				}
				files = append(files, f)
			}
		}
	}
	x := cmdExpected(k.Binary == "v4", files, k.Stdin)
	o := runCmd(env.bins[k.Binary], env.dir, k.Files, k.Long, k.Stdin, k.Splits...)
	judgeCmd(ctx, k, x, o)
}
