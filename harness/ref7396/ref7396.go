// Package ref7396 is RFC 7396's MergePatch pseudo-code, verbatim, on refjson
// trees, with member order tracked (survivors keep their position, new members
// are appended in patch order).
package ref7396

import (
	rj "verif.local/h/refjson"
)

// Merge returns MergePatch(target, patch); target may be nil (undefined).
func Merge(target, patch *rj.Value) *rj.Value {
	if patch.K != rj.Obj {
		return rj.Clone(patch)
	}
	var t *rj.Value
	if target == nil || target.K != rj.Obj {
		t = rj.NewObj()
	} else {
		t = rj.Clone(target)
	}
	for _, m := range patch.O {
		i := t.Index(m.Name)
		if m.V.K == rj.Null {
			if i >= 0 {
				t.O = append(t.O[:i:i], t.O[i+1:]...)
			}
			continue
		}
		if i >= 0 {
			t.O[i].V = Merge(t.O[i].V, m.V)
		} else {
			t.O = append(t.O, rj.Member{Name: m.Name, V: Merge(nil, m.V)})
		}
	}
	return t
}

// Compatible is C07's side condition: wherever p2 holds an object, p1 holds an
// object or nothing at that path.
func Compatible(p1, p2 *rj.Value) bool {
	if p2.K != rj.Obj {
		return true
	}
	if p1 == nil {
		return true
	}
	if p1.K != rj.Obj {
		return false
	}
	for _, m := range p2.O {
		if m.V.K != rj.Obj {
			continue
		}
		v1, ok := p1.Get(m.Name)
		if !ok {
			continue
		}
		if !Compatible(v1, m.V) {
			return false
		}
	}
	return true
}

// MinimalDiff checks CreateMergePatch's minimality clauses for patch p between
// objects a and b; it returns "" or what is wrong.
func MinimalDiff(a, b, p *rj.Value, path string) string {
	if p.K != rj.Obj {
		return "patch at " + path + " is not an object"
	}
	for _, m := range p.O {
		pp := path + "/" + m.Name
		av, aok := a.Get(m.Name)
		bv, bok := b.Get(m.Name)
		switch {
		case !bok:
			// mentioned but absent from B: must be a removal of something A has
			if m.V.K != rj.Null {
				return "member " + pp + " is absent from B but the patch sets it"
			}
			if !aok {
				return "member " + pp + " is in neither A nor B"
			}
		case aok && av.K == rj.Obj && bv.K == rj.Obj && m.V.K == rj.Obj:
			if len(m.V.O) == 0 {
				return "empty sub-patch at " + pp
			}
			if why := MinimalDiff(av, bv, m.V, pp); why != "" {
				return why
			}
		default:
			if !rj.Equal(m.V, bv) {
				return "member " + pp + " of the patch is not B's value"
			}
			if aok && rj.Equal(av, bv) {
				return "member " + pp + " is mentioned although A and B agree there"
			}
		}
	}
	// every removed member appears as null; every changed/added member is mentioned
	for _, m := range a.O {
		if _, ok := b.Get(m.Name); !ok {
			if v, ok := p.Get(m.Name); !ok || v.K != rj.Null {
				return "member " + path + "/" + m.Name + " was removed but is not null in the patch"
			}
		}
	}
	return ""
}
