module verif.local/h

go 1.18

require (
	github.com/evanphx/json-patch v0.0.0
	github.com/evanphx/json-patch/v5 v5.0.0
)

replace github.com/evanphx/json-patch/v5 => /repo/v5

replace github.com/evanphx/json-patch => /repo
