package main

import (
	"fmt"
	"os"
	"strings"
	"sync/atomic"
	"time"

	"verif.local/h/core"
	"verif.local/h/impl"
	rj "verif.local/h/refjson"
)

// Size sweeps. The value families of the merge engine are tiny (names a, b, c; three elements;
// depth 3), so code that changes behaviour at a size - a fast path for strings shorter than 64
// bytes, a pre-sized map beyond 64 members, a probe of the ends of arrays longer than 64, a
// recursion bound at depth 64 or 1000, a text longer than 1 KiB - is never entered by them. A
// sweep fixes ONE dimension (string length, member count, array length, nesting depth), walks it
// densely from 0 to 130 and then through the neighbourhood of every power of two up to a bound,
// and at every size builds a CLUSTER of closely related values (the base, the base with its
// first / last / middle part changed, one part removed, one added, a nested part changed, the
// base wrapped one level down). Every ordered pair (triple for the composition law) inside a
// cluster is judged by the engine's ordinary oracle.

func sweepSizes(dense int, pows ...int) []int {
	var out []int
	for i := 0; i <= dense; i++ {
		out = append(out, i)
	}
	for _, p := range pows {
		for _, d := range []int{-1, 0, 1, 2} {
			if p+d > dense {
				out = append(out, p+d)
			}
		}
	}
	return out
}

func plainString(n int, last byte) string {
	b := []byte(strings.Repeat("abcdefghij", n/10+1)[:n])
	if n > 0 {
		b[n-1] = last
	}
	return string(b)
}

func jstr(s string) *rj.Value { return rj.NewStr(s) }

func num(i int) *rj.Value { return rj.NewNum(fmt.Sprint(i)) }

// stringCluster: a string of exactly n plain bytes as a member value, as a member name, and as the
// name of a nested object; with its last and its first byte changed.
func stringCluster(n int) []*rj.Value {
	s, t := plainString(n, 'x'), plainString(n, 'y')
	u := t
	if n > 1 {
		u = "Z" + s[1:]
	}
	ob := func(ms ...rj.Member) *rj.Value { return rj.NewObj(ms...) }
	k1 := rj.Member{Name: "k", V: num(1)}
	out := []*rj.Value{
		ob(rj.Member{Name: "s", V: jstr(s)}, k1),
		ob(rj.Member{Name: "s", V: jstr(t)}, k1),
		ob(rj.Member{Name: "s", V: jstr(u)}, k1),
		ob(rj.Member{Name: "s", V: jstr(s)}),
		ob(k1),
	}
	if n > 0 { // the empty name would collide with nothing, but "k" must stay distinct from the long name
		out = append(out,
			ob(rj.Member{Name: s + "_", V: num(1)}, k1),
			ob(rj.Member{Name: t + "_", V: num(1)}, k1),
			ob(rj.Member{Name: s + "_", V: ob(rj.Member{Name: "x", V: num(1)}, rj.Member{Name: "y", V: jstr(s)})}, k1),
			ob(rj.Member{Name: s + "_", V: ob(rj.Member{Name: "x", V: num(2)})}, k1),
			ob(rj.Member{Name: "arr", V: rj.NewArr(jstr(s), ob(rj.Member{Name: s + "_", V: jstr(t)}))}, k1),
		)
	}
	return out
}

func widthObj(n int) *rj.Value {
	o := rj.NewObj()
	for i := 0; i < n; i++ {
		v := num(i)
		if i == 1 {
			v = rj.MustParse(`{"x":1,"w":{"p":1}}`)
		}
		o.O = append(o.O, rj.Member{Name: fmt.Sprintf("m%04d", i), V: v})
	}
	return o
}

// widthCluster: an object of exactly n members; first / last member changed, last removed, one added,
// the nested member changed / emptied, everything one level down, and two narrow partners.
func widthCluster(n int) []*rj.Value {
	base := widthObj(n)
	out := []*rj.Value{base}
	mod := func(f func(v *rj.Value)) *rj.Value {
		c := rj.Clone(base)
		f(c)
		out = append(out, c)
		return c
	}
	if n > 0 {
		mod(func(v *rj.Value) { v.O[0].V = num(-1) })
		mod(func(v *rj.Value) { v.O[n-1].V = rj.MustParse(`"changed"`) })
		mod(func(v *rj.Value) { v.O = v.O[:n-1] })
	}
	mod(func(v *rj.Value) { v.O = append(v.O, rj.Member{Name: "zz", V: rj.MustParse(`{"n":1}`)}) })
	var nested *rj.Value
	if n > 1 {
		nested = mod(func(v *rj.Value) { v.O[1].V = rj.MustParse(`{"y":2,"w":{"q":2}}`) })
		mod(func(v *rj.Value) { v.O[1].V = rj.MustParse(`{}`) })
	}
	out = append(out, rj.NewObj(rj.Member{Name: "in", V: base}))
	if nested != nil {
		out = append(out, rj.NewObj(rj.Member{Name: "in", V: nested}))
	}
	out = append(out, rj.MustParse(`{"m0000":9,"z":1}`), rj.MustParse(`{"z":{"x":1},"m0001":{"x":5}}`), rj.MustParse(`{}`), rj.MustParse(`{"in":{},"gone":null}`))
	return out
}

func intArray(n int) *rj.Value {
	a := rj.NewArr()
	for i := 0; i < n; i++ {
		a.A = append(a.A, num(i))
	}
	return a
}

// arrayCluster: an object whose member is an array of exactly n elements; first / last / middle /
// both ends changed, one element fewer, and the same inside an enclosing array.
func arrayCluster(n int) []*rj.Value {
	wrap := func(a *rj.Value) *rj.Value {
		return rj.NewObj(rj.Member{Name: "a", V: a}, rj.Member{Name: "k", V: num(1)})
	}
	base := intArray(n)
	out := []*rj.Value{wrap(base)}
	mod := func(f func(a *rj.Value)) {
		c := rj.Clone(base)
		f(c)
		out = append(out, wrap(c), wrap(rj.NewArr(num(7), c)))
	}
	out = append(out, wrap(rj.NewArr(num(7), base)))
	if n > 0 {
		mod(func(a *rj.Value) { a.A[0] = num(-1) })
		mod(func(a *rj.Value) { a.A[n-1] = num(-1) })
		mod(func(a *rj.Value) { a.A[n/2] = rj.MustParse(`{"m":null}`) })
		mod(func(a *rj.Value) { a.A[0], a.A[n-1] = num(-2), num(-3) })
		mod(func(a *rj.Value) { a.A = a.A[:n-1] })
	}
	return out
}

// depthCluster: three leaves under d levels of objects, of arrays, and of both alternating.
func depthCluster(d int) []*rj.Value {
	leaves := parseAll([]string{`{"x":1,"y":"s"}`, `{"x":1}`, `{"x":2,"y":"s"}`, `{"x":1,"y":"s","z":{"a":null}}`})
	if d > 200 { // the library's comparison re-reads the text once per level: keep the deep clusters small
		leaves = leaves[:2]
	}
	var out []*rj.Value
	for _, l := range leaves {
		o, a, m := l, l, l
		for i := 0; i < d; i++ {
			o = rj.NewObj(rj.Member{Name: "a", V: o})
			a = rj.NewArr(a)
			if i%2 == 0 {
				m = rj.NewArr(m)
			} else {
				m = rj.NewObj(rj.Member{Name: "a", V: m}, rj.Member{Name: "b", V: num(i)})
			}
		}
		out = append(out, o, rj.NewObj(rj.Member{Name: "r", V: a}), rj.NewObj(rj.Member{Name: "r", V: m}))
	}
	return out
}

type sizeDims struct {
	strings, widths, arrays, depths []int
	products                        []int // powers of two whose neighbourhoods are also explored in wrapped positions
}

func sizeDimsFor(tier string) sizeDims {
	if tier == "thorough" {
		return sizeDims{
			strings:  sweepSizes(600, 1000, 1024, 2048, 4096, 8192, 10000, 65536, 100000, 1<<20),
			widths:   sweepSizes(140, 200, 256, 500, 512, 1000, 1024, 4096),
			arrays:   sweepSizes(140, 200, 256, 500, 512, 1000, 1024, 4096),
			depths:   sweepSizes(140, 256, 512, 1000, 2048),
			products: []int{16, 32, 64, 128, 256, 1024, 4096},
		}
	}
	return sizeDims{
		strings:  sweepSizes(260, 500, 512, 1000, 1024, 4096, 10000, 65536),
		widths:   sweepSizes(100, 128, 200, 256, 500, 1000, 1024),
		arrays:   sweepSizes(100, 128, 200, 256, 500, 1000, 1024),
		depths:   append(sweepSizes(70, 100, 128), 1000, 1001, 1002),
		products: []int{64, 256},
	}
}

// sizeClusters returns every cluster of the sweep, labelled.
func sizeClusters(tier string, noNull bool) (labels []string, clusters [][]*rj.Value) {
	d := sizeDimsFor(tier)
	add := func(l string, c []*rj.Value) {
		if noNull {
			var k []*rj.Value
			for _, v := range c {
				if !rj.HasNullMember(v) {
					k = append(k, v)
				}
			}
			c = k
		}
		labels, clusters = append(labels, l), append(clusters, c)
	}
	for _, n := range d.strings {
		add(fmt.Sprintf("string%d", n), stringCluster(n))
	}
	for _, n := range d.widths {
		add(fmt.Sprintf("width%d", n), widthCluster(n))
	}
	for _, n := range d.arrays {
		add(fmt.Sprintf("array%d", n), arrayCluster(n))
	}
	for _, n := range d.depths {
		add(fmt.Sprintf("depth%d", n), depthCluster(n))
	}
	// PRODUCTS of a size and a position: the clusters next to the powers of two once more, every value
	// wrapped (a) as element 17 of an 18-element array member, (b) nine levels down, (c) as the 39th member of
	// a 40-member object - a fast path keyed on the size AND on where the sized part sits
	near := func(n int) bool {
		for _, p := range d.products {
			if n >= p-1 && n <= p+1 {
				return true
			}
		}
		return false
	}
	wrap := func(l string, c []*rj.Value) {
		var inArr, deep, wide []*rj.Value
		for _, v := range c {
			a := intArray(17)
			a.A = append(a.A, v)
			inArr = append(inArr, rj.NewObj(rj.Member{Name: "w", V: a}, rj.Member{Name: "k", V: num(1)}))
			dv := v
			for i := 0; i < 9; i++ {
				dv = rj.NewObj(rj.Member{Name: "d", V: dv}, rj.Member{Name: "s", V: num(i)})
			}
			deep = append(deep, dv)
			w := widthObj(40)
			w.O[38].V = v
			wide = append(wide, w)
		}
		add(l+"@index17", inArr)
		add(l+"@depth9", deep)
		add(l+"@member39", wide)
	}
	for _, n := range d.strings {
		if near(n) {
			wrap(fmt.Sprintf("string%d", n), stringCluster(n))
		}
	}
	for _, n := range d.widths {
		if near(n) {
			wrap(fmt.Sprintf("width%d", n), widthCluster(n))
		}
	}
	for _, n := range d.arrays {
		if near(n) {
			wrap(fmt.Sprintf("array%d", n), arrayCluster(n))
		}
	}
	return
}

// rareClusters: valid JSON that is rarely written - exponent and sign spellings of numbers, 60-digit
// integers, empty / NUL / BOM-like / non-BMP member names and strings, nests of empty containers.
func rareClusters() [][]*rj.Value {
	big := strings.Repeat("9", 60)
	return [][]*rj.Value{
		parseAll([]string{`{"n":1E+2}`, `{"n":1e-0}`, `{"n":-0.0}`, `{"n":0e0}`, `{"n":1E+2,"m":1}`, `{"n":100}`, `{"n":` + big + `}`, `{"n":` + big[:59] + `8}`, `{"n":[1E+2,-0.0]}`, `{"n":[1E+2,-0]}`, `{"n":{"n":1e-0}}`,
			`{"n":1e05}`, `{"n":2.5E+05}`, `{"n":1e-07}`, `{"n":0.0e00}`, `{"n":1e007,"m":[1e-07]}`, `{"n":1e5}`, `{"n":0.000}`, `{"n":10E-01}`}),
		parseAll([]string{`{"":1}`, `{"":{"":1}}`, `{"":{"":2}}`, `{"":"","x":""}`, `{"x":""}`, `{"\ud83d\ude00":1}`, `{"\ud83d\ude00":2}`, `{"\ud83d\ude01":1}`, `{"\u0000":1}`, `{"\u0000x":1}`, `{"\ufeffx":1}`,
			`{"x":"\ufeff"}`, `{"x":"\u0000"}`, `{"x":"\ufeffx","\ufeff":{"\u0000":[""]}}`}),
		// the same characters as a string and as a number / literal (a comparison by spelling or by reflect kind)
		parseAll([]string{`{"ids":["12",7],"n":1}`, `{"ids":[12,7],"n":1}`, `{"r":[{"z":"90210","k":1}]}`, `{"r":[{"z":90210,"k":1}]}`, `{"z":"90210"}`, `{"z":90210}`, `{"v":["true","null","1e2"]}`, `{"v":[true,null,1e2]}`,
			`{"v":["[]","{}"]}`, `{"v":[[],{}]}`, `{"v":"1"}`, `{"v":[1]}`, `{"v":["1"]}`, `{"v":1}`}),
		// roots that are scalars, empty strings and their look-alikes
		parseAll([]string{`""`, `null`, `0`, `false`, `[]`, `{}`, `"null"`, `"0"`, `" "`, `"false"`, `[""]`, `[null]`, `{"":""}`, `{"":null}`, `-0`, `0.0`}),
		// arrays of documents: every pair of elements from a small object family (the array form of CreateMergePatch:
		// what one element's diff leaves behind must not reach the next)
		arraysOfDocs(),
		parseAll([]string{`{"e":[[[[[[]]]]]]}`, `{"e":[[[[[{}]]]]]}`, `{"e":{"":{"":{"":{}}}}}`, `{"e":{"":{"":{"":[]}}}}`, `{"e":[]}`, `{"e":{}}`, `{"e":[[],{}]}`, `{"e":[{},[]]}`, `{}`, `{"e":[[[[[[]]]]]],"f":{}}`}),
	}
}

type sizeWhat struct {
	merge, create, equal, compose bool
}

// runSizeSweep: every ordered pair inside every cluster through the chosen functions.
func runSizeSweep(ctx *core.Ctx, id string, legacy bool, tier string, what sizeWhat) {
	labels, clusters := sizeClusters(tier, false)
	if !legacy {
		for i, c := range rareClusters() {
			labels, clusters = append(labels, fmt.Sprintf("rare%d", i)), append(clusters, c)
		}
	}
	ctx.Count("size_clusters", int64(len(clusters)))
	timing := os.Getenv("VERIF_SIZE_TIMING") != ""
	for i, c := range clusters {
		t0 := time.Now()
		if what.merge {
			runMergeEdges(ctx, id, legacy, c, c, mergeCfg{})
		}
		if what.create {
			runCreatePairs(ctx, id, legacy, c, c)
		}
		if what.equal {
			runEqualPairs(ctx, id, legacy, c, true)
		}
		if timing && time.Since(t0) > 300*time.Millisecond {
			fmt.Fprintf(os.Stderr, "  size cluster %s: %v\n", labels[i], time.Since(t0))
		}
	}
	if what.merge {
		// DELETION RATIOS: a patch that nulls half / four fifths / all but one of an n-member object (and
		// changes one survivor), at the root and one level down - what is left relative to what was there
		d := sizeDimsFor(tier)
		var ratios int64
		for _, n := range d.widths {
			if n < 4 {
				continue
			}
			base := widthObj(n)
			var patches []*rj.Value
			for _, k := range []int{n / 2, n * 4 / 5, n - 1} {
				po := rj.NewObj()
				for i := 0; i < k; i++ {
					po.O = append(po.O, rj.Member{Name: base.O[i].Name, V: rj.NewNull()})
				}
				po.O = append(po.O, rj.Member{Name: base.O[n-1].Name, V: rj.MustParse(`"kept"`)})
				patches = append(patches, po, rj.NewObj(rj.Member{Name: "in", V: po}))
				ratios++
			}
			runMergeEdges(ctx, id, legacy, []*rj.Value{base, rj.NewObj(rj.Member{Name: "in", V: base}, rj.Member{Name: "k", V: num(1)})}, patches, mergeCfg{})
		}
		ctx.Count("size_deletion_ratio_patches", ratios)
	}
	if what.compose {
		// the composition law on the clusters next to the powers of two only (cubic)
		for i, c := range clusters {
			l := labels[i]
			n := 0
			fmt.Sscanf(strings.TrimLeft(l, "abcdefghijklmnopqrstuvwxyz"), "%d", &n)
			near := false
			pows := []int{32, 64, 100, 128, 256}
			if tier == "thorough" {
				pows = append(pows, 200, 500, 1000, 1024)
			}
			for _, p := range pows {
				if n >= p-1 && n <= p+2 {
					near = true
				}
			}
			if strings.HasPrefix(l, "rare") {
				near = true
			}
			if !near || strings.HasPrefix(l, "array") || (strings.Contains(l, "@") && tier != "thorough") {
				continue
			}
			objs := onlyObjs(c)
			if strings.HasPrefix(l, "width") && n >= 100 && len(c) == 13 {
				objs = []*rj.Value{c[0], c[3], c[5], c[7], c[8], c[9], c[10], c[11], c[12]} // base, last removed, nested changed, both one level down, the narrow and the empty partners
			}
			t0 := time.Now()
			runCompose(ctx, id, legacy, objs, objs, objs)
			if timing && time.Since(t0) > 300*time.Millisecond {
				fmt.Fprintf(os.Stderr, "  size cluster %s (compose): %v\n", l, time.Since(t0))
			}
		}
	}
}

// runSizeSweepPanics: every ordered pair inside every size cluster through MergePatch, MergeMergePatches,
// CreateMergePatch and Equal - judged only for "returns, does not panic" (C04).
func runSizeSweepPanics(ctx *core.Ctx, id string, legacy bool, tier string) {
	labels, clusters := sizeClusters(tier, false)
	type pair struct{ a, b string }
	var pairs []pair
	for i, c := range clusters {
		if strings.Contains(labels[i], "@") && tier != "thorough" {
			continue // the wrapped positions are judged by C02/C03/C06/C19 (which also report panics)
		}
		for _, a := range c {
			at := txt(a)
			for _, b := range c {
				pairs = append(pairs, pair{at, txt(b)})
			}
		}
	}
	n := ctx.Counter("size_sweep_panic_pairs")
	ctx.Parallel(len(pairs), func(w *core.Worker, i int) {
		p := pairs[i]
		a, b := []byte(p.a), []byte(p.b)
		lib := map[bool]string{false: "v5", true: "v4"}[legacy]
		for _, fn := range []string{"MergePatch", "MergeMergePatches", "CreateMergePatch", "Equal"} {
			fn := fn
			w.Tick(func() string { return string(core.J(MergeCase{Lib: lib, Func: fn, Args: []string{p.a, p.b}})) })
			var r impl.R
			switch fn {
			case "MergePatch":
				r = impl.MergePatch(legacy, a, b)
			case "MergeMergePatches":
				r = impl.MergeMergePatches(legacy, a, b)
			case "CreateMergePatch":
				r = impl.CreateMergePatch(legacy, a, b)
			default:
				r = impl.Equal(legacy, a, b)
			}
			atomic.AddInt64(&nExec, 1)
			if r.Panic != "" {
				ctx.Violate(core.Violation{Property: id, Clause: "panic", Key: id + ":panic:" + impl.PanicSite(r.Panic), Engine: "mergex",
					Detail: fmt.Sprintf("%s(%s, %s) panics: %s", fn, trunc(p.a, 300), trunc(p.b, 300), r.Panic),
					Case:   core.J(MergeCase{Lib: lib, Func: fn, Args: []string{p.a, p.b}})})
			}
		}
		atomic.AddInt64(n, 1)
	})
}

func arraysOfDocs() []*rj.Value {
	objs := parseAll([]string{`{"id":1,"e":"a"}`, `{"id":2,"e":"b"}`, `{"id":2}`, `{"id":2,"e":"a"}`, `{"z":0}`, `{"z":0,"id":1}`, `{}`, `{"k":{"e":"a"}}`})
	var out []*rj.Value
	for _, a := range objs {
		for _, b := range objs {
			out = append(out, rj.NewArr(a, b))
		}
	}
	return out
}
