// Package impl adapts the two library packages (v5 module and legacy root
// package) to one interface, with panic capture. Everything goes through the
// exported API only.
package impl

import (
	"errors"
	"fmt"
	"runtime/debug"
	"strings"

	v4 "github.com/evanphx/json-patch"
	v5 "github.com/evanphx/json-patch/v5"

	"verif.local/h/ref6902"
)

// Obs is what one decode+apply showed.
type Obs struct {
	DecodeErr    string // non-empty: DecodePatch rejected the patch text
	Out          []byte
	OutNil       bool
	Err          string // non-empty: Apply returned an error
	IsTestFailed bool
	IsMissing    bool
	IsCopySize   bool
	Panic        string
}

func (o *Obs) Failed() bool { return o.Err != "" }

type Call struct {
	Doc, Patch  []byte
	Opt         ref6902.Options
	Indent      string
	UseDefaults bool // v5: set the package-level defaults and call Apply/ApplyIndent
}

func panicText(r interface{}) string {
	st := string(debug.Stack())
	// keep the frames below the panic, trimmed
	lines := strings.Split(st, "\n")
	keep := []string{}
	for _, l := range lines {
		if strings.Contains(l, "json-patch") || strings.Contains(l, "/repo/") {
			keep = append(keep, strings.TrimSpace(l))
			if len(keep) >= 6 {
				break
			}
		}
	}
	return fmt.Sprintf("%v @ %s", r, strings.Join(keep, " | "))
}

// PanicSite extracts a stable "function" key from a panic text (for findings).
func PanicSite(p string) string {
	i := strings.Index(p, " @ ")
	if i < 0 {
		return p
	}
	rest := p[i+3:]
	if j := strings.Index(rest, " | "); j >= 0 {
		rest = rest[:j]
	}
	if j := strings.Index(rest, "("); j >= 0 {
		// strip argument list of the innermost library frame
		k := strings.LastIndex(rest, "(")
		_ = j
		rest = rest[:k]
	}
	return rest
}

func V5Apply(c Call) (o Obs) {
	defer func() {
		if r := recover(); r != nil {
			o.Panic = panicText(r)
		}
	}()
	p, err := v5.DecodePatch(c.Patch)
	if err != nil {
		o.DecodeErr = err.Error()
		return
	}
	var out []byte
	if c.UseDefaults {
		if c.Indent == "" {
			out, err = p.Apply(c.Doc)
		} else {
			out, err = p.ApplyIndent(c.Doc, c.Indent)
		}
	} else {
		ao := &v5.ApplyOptions{
			SupportNegativeIndices:   c.Opt.Neg,
			AccumulatedCopySizeLimit: c.Opt.Limit,
			AllowMissingPathOnRemove: c.Opt.AllowMissing,
			EnsurePathExistsOnAdd:    c.Opt.Ensure,
			EscapeHTML:               c.Opt.EscapeHTML,
		}
		if c.Indent == "" {
			out, err = p.ApplyWithOptions(c.Doc, ao)
		} else {
			out, err = p.ApplyIndentWithOptions(c.Doc, c.Indent, ao)
		}
	}
	o.Out, o.OutNil = out, out == nil
	if err != nil {
		o.Err = err.Error()
		if o.Err == "" {
			o.Err = "(empty error text)"
		}
		o.IsTestFailed = errors.Is(err, v5.ErrTestFailed)
		o.IsMissing = errors.Is(err, v5.ErrMissing)
		var ce *v5.AccumulatedCopySizeError
		o.IsCopySize = errors.As(err, &ce)
	}
	return
}

func V4Apply(c Call) (o Obs) {
	defer func() {
		if r := recover(); r != nil {
			o.Panic = panicText(r)
		}
	}()
	p, err := v4.DecodePatch(c.Patch)
	if err != nil {
		o.DecodeErr = err.Error()
		return
	}
	var out []byte
	if c.Indent == "" {
		out, err = p.Apply(c.Doc)
	} else {
		out, err = p.ApplyIndent(c.Doc, c.Indent)
	}
	o.Out, o.OutNil = out, out == nil
	if err != nil {
		o.Err = err.Error()
		if o.Err == "" {
			o.Err = "(empty error text)"
		}
		o.IsTestFailed = errors.Is(err, v4.ErrTestFailed)
		o.IsMissing = errors.Is(err, v4.ErrMissing)
		var ce *v4.AccumulatedCopySizeError
		o.IsCopySize = errors.As(err, &ce)
	}
	return
}

// ---- plain byte-level entry points, both packages ----

type R struct {
	Out   []byte
	Err   string
	Bool  bool
	Panic string
}

func guard(r *R) {
	if x := recover(); x != nil {
		r.Panic = panicText(x)
	}
}

func errText(err error) string {
	if err == nil {
		return ""
	}
	if s := err.Error(); s != "" {
		return s
	}
	return "(empty error text)"
}

func MergePatch(legacy bool, doc, patch []byte) (r R) {
	defer guard(&r)
	var err error
	if legacy {
		r.Out, err = v4.MergePatch(doc, patch)
	} else {
		r.Out, err = v5.MergePatch(doc, patch)
	}
	r.Err = errText(err)
	return
}

func MergeMergePatches(legacy bool, p1, p2 []byte) (r R) {
	defer guard(&r)
	var err error
	if legacy {
		r.Out, err = v4.MergeMergePatches(p1, p2)
	} else {
		r.Out, err = v5.MergeMergePatches(p1, p2)
	}
	r.Err = errText(err)
	return
}

func CreateMergePatch(legacy bool, a, b []byte) (r R) {
	defer guard(&r)
	var err error
	if legacy {
		r.Out, err = v4.CreateMergePatch(a, b)
	} else {
		r.Out, err = v5.CreateMergePatch(a, b)
	}
	r.Err = errText(err)
	return
}

func Equal(legacy bool, a, b []byte) (r R) {
	defer guard(&r)
	if legacy {
		r.Bool = v4.Equal(a, b)
	} else {
		r.Bool = v5.Equal(a, b)
	}
	return
}

// SetGlobals sets the package-level switches once per exploration phase (the
// legacy package has nothing else; v5 only when the phase exercises the package
// defaults). Engines never run two different settings concurrently.
func SetGlobals(legacy, useDefaults bool, o ref6902.Options) {
	if legacy {
		v4.SupportNegativeIndices, v4.AccumulatedCopySizeLimit = o.Neg, o.Limit
	} else if useDefaults {
		v5.SupportNegativeIndices, v5.AccumulatedCopySizeLimit = o.Neg, o.Limit
	}
}

// ---- DecodePatch + accessors (v5) ----

type OpView struct {
	Kind     string
	Path     string
	PathErr  string
	From     string
	FromErr  string
	Value    interface{}
	ValueErr string
}

type DecodeView struct {
	Err    string
	NilOut bool
	Ops    []OpView
	Panic  string
}

func V5Decode(patch []byte) (d DecodeView) {
	defer func() {
		if r := recover(); r != nil {
			d.Panic = panicText(r)
		}
	}()
	p, err := v5.DecodePatch(patch)
	d.Err = errText(err)
	d.NilOut = p == nil
	for _, op := range p {
		var v OpView
		v.Kind = op.Kind()
		var e error
		v.Path, e = op.Path()
		v.PathErr = errText(e)
		v.From, e = op.From()
		v.FromErr = errText(e)
		v.Value, e = op.ValueInterface()
		v.ValueErr = errText(e)
		d.Ops = append(d.Ops, v)
	}
	return
}

// SetV5PackageLimit sets only the v5 package-level default copy limit (used to
// check that a per-call limit of 0 really disables the check whatever the default is).
func SetV5PackageLimit(l int64) { v5.AccumulatedCopySizeLimit = l }

// SetV5HostileDefaults sets the v5 package-level defaults to the OPPOSITE of the
// per-call options a phase uses: explicit ApplyOptions must take precedence in
// every respect, so nothing may change. Returns a restore function.
func SetV5HostileDefaults(o ref6902.Options) func() {
	oldN, oldL := v5.SupportNegativeIndices, v5.AccumulatedCopySizeLimit
	v5.SupportNegativeIndices = !o.Neg
	v5.AccumulatedCopySizeLimit = 1
	return func() { v5.SupportNegativeIndices, v5.AccumulatedCopySizeLimit = oldN, oldL }
}
