package main

import (
	"bytes"
	"encoding/json"
	"fmt"
	"os"
	"os/exec"
	"sync"
	"time"

	"verif.local/h/core"
)

// runSharded splits a check whose engine owns process-wide state over worker
// processes of this same binary and merges their reports.
func runSharded(prop string, ck *check, tier, out string, budget time.Duration) {
	n := ck.Shards
	ctx := core.NewCtx(prop, ck.Engine, tier, budget)
	var wg sync.WaitGroup
	reps := make([]*core.Report, n)
	errs := make([]string, n)
	for i := 0; i < n; i++ {
		wg.Add(1)
		go func(i int) {
			defer wg.Done()
			o := fmt.Sprintf("%s.shard%d", out, i)
			cmd := exec.Command(os.Args[0], "run", "--prop", prop, "--tier", tier, "--out", o, "--budget", budget.String())
			cmd.Env = append(os.Environ(), fmt.Sprintf("VERIF_SHARD=%d/%d", i, n), "GOMAXPROCS=2")
			var ob bytes.Buffer
			cmd.Stdout, cmd.Stderr = &ob, &ob
			err := cmd.Start()
			if err == nil {
				done := make(chan error, 1)
				go func() { done <- cmd.Wait() }()
				select {
				case err = <-done:
				case <-time.After(budget + 25*time.Minute):
					cmd.Process.Kill()
					err = fmt.Errorf("worker did not finish within its budget + 25 min (killed)")
				}
			}
			b := ob.Bytes()
			if err != nil {
				if ee, ok := err.(*exec.ExitError); ok && ee.ExitCode() == 3 {
					what, _ := os.ReadFile(o + ".hang")
					os.WriteFile(out+".hang", what, 0o644)
					fmt.Fprintf(os.Stderr, "%s", b)
					os.Exit(3)
				}
				errs[i] = fmt.Sprintf("shard %d: %v\n%s", i, err, tailStr(string(b), 30))
				return
			}
			if len(b) > 0 {
				os.Stderr.Write(b)
			}
			rb, err := os.ReadFile(o)
			if err != nil {
				errs[i] = err.Error()
				return
			}
			var r core.Report
			if err := json.Unmarshal(rb, &r); err != nil {
				errs[i] = err.Error()
				return
			}
			reps[i] = &r
		}(i)
	}
	wg.Wait()
	for _, e := range errs {
		if e != "" {
			fmt.Fprintln(os.Stderr, e)
			os.Exit(2)
		}
	}
	m := ctx.Rep
	per := map[string]interface{}{}
	for i, r := range reps {
		ctx.ImportStates(fmt.Sprintf("%s.shard%d.states", out, i))
		m.Trans += r.Trans
		m.Validated += r.Validated
		m.Evals += r.Evals
		m.Nontrivial += r.Nontrivial
		m.NViol += r.NViol
		if r.Rule != "" {
			m.Rule = r.Rule
		}
		if !r.Exhaustive {
			m.Exhaustive = false
		}
		for _, c := range r.Caps {
			ctx.Cap(c)
		}
		for k, v := range r.Counters {
			ctx.Count(k, v)
		}
		for _, s := range r.Samples {
			ctx.Sample(s, 8)
		}
		for _, v := range r.Violations {
			ctx.Violate(v)
			m.NViol-- // Violate counted it again
		}
		if len(m.Assume) == 0 {
			m.Assume = r.Assume
		}
		for k, v := range r.Extra {
			switch k {
			case "per_scenario":
				if mm, ok := v.(map[string]interface{}); ok {
					for kk, vv := range mm {
						per[kk] = vv
					}
				}
			case "closure_reached":
				if b, ok := v.(bool); ok {
					if old, seen := m.Extra[k]; !seen {
						m.Extra[k] = b
					} else {
						m.Extra[k] = old.(bool) && b
					}
				}
			case "phase_seconds":
			default:
				if _, seen := m.Extra[k]; !seen || k == "race_pass" {
					m.Extra[k] = v
				}
			}
		}
	}
	if len(per) > 0 {
		m.Extra["per_scenario"] = per
	}
	m.Extra["worker_processes"] = n
	ctx.Finish(out)
}

func tailStr(s string, n int) string {
	l := []string{}
	cur := ""
	for _, c := range s {
		if c == '\n' {
			l = append(l, cur)
			cur = ""
		} else {
			cur += string(c)
		}
	}
	if cur != "" {
		l = append(l, cur)
	}
	if len(l) > n {
		l = l[len(l)-n:]
	}
	out := ""
	for _, x := range l {
		out += x + "\n"
	}
	return out
}
