//go:build shim

package main

import (
	"fmt"
	"runtime/debug"

	zs "github.com/evanphx/json-patch/v5/zzvsync"
)

// ---- choice traces (shared by the history engine and the schedule engine) ----

// cpoint is one recorded choice point of an execution.
type cpoint struct {
	n     int    // number of alternatives
	kind  string // "sched" | "Pool.Get"
	free  bool   // alternatives cost nothing (the running thread is blocked or done)
	taken int
	label string // what was chosen (thread id / pool answer), for replay files
}

// chooser replays a prefix of choices and then takes the default (0) everywhere,
// recording every point. An out-of-range prefix entry is a hard harness error.
type chooser struct {
	prefix []int
	trace  []cpoint
	err    string
}

func (c *chooser) choose(kind string, n int, free bool) int {
	i := len(c.trace)
	k := 0
	if i < len(c.prefix) {
		k = c.prefix[i]
		if k >= n {
			if c.err == "" {
				c.err = fmt.Sprintf("replay divergence at choice point %d (%s): recorded choice %d but only %d alternatives", i, kind, k, n)
			}
			k = 0
		}
	}
	c.trace = append(c.trace, cpoint{n: n, kind: kind, free: free, taken: k})
	return k
}

func (c *chooser) choices() []int {
	out := make([]int, len(c.trace))
	for i, p := range c.trace {
		out[i] = p.taken
	}
	return out
}

// deviations counts the budgeted (non-free, non-default) choices in trace[:upto].
func deviations(trace []cpoint, upto int) int {
	d := 0
	for i := 0; i < upto && i < len(trace); i++ {
		if trace[i].taken != 0 && !trace[i].free {
			d++
		}
	}
	return d
}

// exploreDFS enumerates every execution whose number of deviations is <= bound:
// run(prefix) must replay prefix then choose 0; visit is called once per
// execution. Returns the number of executions; stops early when stop() says so.
func exploreDFS(bound int, run func(prefix []int) *chooser, visit func(c *chooser), stop func() bool) (execs int64, complete bool) {
	complete = true
	var rec func(prefix []int)
	rec = func(prefix []int) {
		if stop != nil && stop() {
			complete = false
			return
		}
		c := run(prefix)
		execs++
		visit(c)
		if c.err != "" {
			return
		}
		for i := len(prefix); i < len(c.trace); i++ {
			p := c.trace[i]
			if p.n <= 1 {
				continue
			}
			cost := deviations(c.trace, i)
			if !p.free {
				cost++
			}
			if cost > bound {
				continue
			}
			for alt := 1; alt < p.n; alt++ {
				np := append(append([]int(nil), c.choices()[:i]...), alt)
				rec(np)
				if stop != nil && stop() {
					complete = false
					return
				}
			}
		}
	}
	rec(nil)
	return
}

// ---- sequential controller (E5): only Pool.Get answers are choices ----

type seqCtl struct{ c *chooser }

func (s *seqCtl) Point(kind string) {}
func (s *seqCtl) Choose(kind string, n int) int {
	if s.c == nil {
		return 0
	}
	return s.c.choose(kind, n, false)
}
func (s *seqCtl) Block(kind string, ready func() bool) {
	if !ready() {
		panic("sequential execution would block forever in " + kind)
	}
}

// ---- controlled scheduler (E6) ----

type thread struct {
	id      int
	resume  chan struct{}
	done    bool
	blocked func() bool // non-nil: waiting for this to hold
	body    func()
	panicV  string
	started bool
}

type sched struct {
	c        *chooser
	threads  []*thread
	cur      *thread
	back     chan struct{} // running thread -> scheduler
	deadlock string
	points   int
	active   bool
}

var theSched *sched

func (s *sched) Point(kind string) {
	if !s.active || s.cur == nil {
		return // warm-up / solo calls outside a scheduled section
	}
	t := s.cur
	s.points++
	s.back <- struct{}{}
	<-t.resume
}

func (s *sched) Choose(kind string, n int) int {
	if !s.active {
		return 0
	}
	return s.c.choose(kind, n, false)
}

func (s *sched) Block(kind string, ready func() bool) {
	if !s.active || s.cur == nil {
		if !ready() {
			panic("blocked outside a scheduled section: " + kind)
		}
		return
	}
	t := s.cur
	t.blocked = ready
	s.back <- struct{}{}
	<-t.resume
	t.blocked = nil
}

func (s *sched) enabled() []*thread {
	var out []*thread
	// canonical order: the running thread first (if still enabled), then ascending ids
	ok := func(t *thread) bool { return !t.done && (t.blocked == nil || t.blocked()) }
	if s.cur != nil && ok(s.cur) {
		out = append(out, s.cur)
	}
	for _, t := range s.threads {
		if t != s.cur && ok(t) {
			out = append(out, t)
		}
	}
	return out
}

// runThreads executes bodies under the scheduler with the given chooser.
func (s *sched) runThreads(c *chooser, bodies []func()) {
	s.c, s.threads, s.cur, s.deadlock, s.points = c, nil, nil, "", 0
	s.back = make(chan struct{})
	for i, b := range bodies {
		t := &thread{id: i, resume: make(chan struct{}), body: b}
		s.threads = append(s.threads, t)
		go func(t *thread) {
			<-t.resume
			defer func() {
				if r := recover(); r != nil {
					t.panicV = fmt.Sprintf("%v\n%s", r, debug.Stack())
				}
				t.done = true
				s.back <- struct{}{}
			}()
			t.body()
		}(t)
	}
	s.active = true
	for {
		en := s.enabled()
		if len(en) == 0 {
			alive := 0
			for _, t := range s.threads {
				if !t.done {
					alive++
				}
			}
			if alive > 0 {
				s.deadlock = fmt.Sprintf("deadlock: %d thread(s) blocked forever", alive)
				// leave the blocked goroutines parked (they hold no OS resources)
			}
			break
		}
		free := !(s.cur != nil && en[0] == s.cur)
		if s.cur == nil {
			free = true
		}
		k := 0
		if len(en) > 1 {
			k = c.choose("sched", len(en), free)
		}
		t := en[k]
		if len(en) > 1 {
			c.trace[len(c.trace)-1].label = fmt.Sprintf("T%d", t.id)
		}
		s.cur = t
		t.resume <- struct{}{}
		<-s.back
	}
	s.active = false
	s.cur = nil
}

func installSched() *sched {
	if theSched == nil {
		theSched = &sched{}
	}
	zs.SetController(theSched)
	return theSched
}
