//go:build shim

package main

import (
	zs "github.com/evanphx/json-patch/v5/zzvsync"

	"verif.local/h/core"
	"verif.local/h/impl"
)

// In the shim flavour the merge engine owns the order of every map iteration inside the
// library (12 `range` sites, rewritten at build time): each call is run under the sorted order
// and under every rotation of each iteration in turn (maps with more than 8 entries: rotations 1, 2, n/2, n-1). The controller is process-wide, so the
// engine runs serially in 16 worker processes.
var mergeOrderChecks = []string{"C02", "C03", "C07"}

func init() {
	for _, id := range mergeOrderChecks {
		if ck := checks[id]; ck != nil {
			ck.Shards = 16
			ck.Engine += "+maporder"
		}
	}
	ctl := &seqCtl{}
	core.SerialShard = func() (int, int) { return shardInfo() }
	orderVariants = func(call func() impl.R) []impl.R {
		zs.SetController(ctl)
		zs.OwnMapOrder = true
		c := &chooser{}
		ctl.c = c
		out := []impl.R{call()}
		ctl.c = nil
		base := c.choices()
		for i, p := range c.trace {
			if p.kind != "map.order" {
				continue
			}
			for alt := 1; alt < p.n; alt++ {
				// maps with more than 8 entries (the scale inputs): rotations 1, 2, n/2 and n-1 only
				if p.n > 8 && alt != 1 && alt != 2 && alt != p.n/2 && alt != p.n-1 {
					continue
				}
				c2 := &chooser{prefix: append(append([]int(nil), base[:i]...), alt)}
				ctl.c = c2
				out = append(out, call())
				ctl.c = nil
			}
		}
		return out
	}
}
