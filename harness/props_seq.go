package main

import (
	"encoding/json"
	"time"

	"verif.local/h/core"
	r69 "verif.local/h/ref6902"
	rj "verif.local/h/refjson"
)

func optsNeg(base r69.Options) []r69.Options {
	a, b := base, base
	a.Neg, b.Neg = true, false
	return []r69.Options{a, b}
}

var defaultOpt = r69.Options{Neg: true, EscapeHTML: true}

func seqReplay(mk func(tier string) *seqProp) func(ctx *core.Ctx, c json.RawMessage) {
	return func(ctx *core.Ctx, raw json.RawMessage) {
		var c SeqCase
		if err := json.Unmarshal(raw, &c); err != nil {
			panic(err)
		}
		p := mk("quick")
		ops, err := jToOps(c.Ops)
		if err != nil {
			panic(err)
		}
		d, err := rj.Parse([]byte(c.Doc))
		if err != nil {
			d = rj.NewObj() // documents outside JSON are judged by their own oracles
		}
		p.UseDefaults = c.UseDefaults
		implSet(p, c.Opt)
		r := &seqRun{p: p, ctx: ctx, doc: d, dtxt: c.Doc, ops: ops, opt: c.Opt}
		r.ref = r69.Apply(d, ops, c.Opt)
		r.obs = r.exec("")
		p.Judge(r)
	}
}

func registerSeq(id string, mk func(tier string) *seqProp, quick, thorough time.Duration) {
	checks[id] = &check{Engine: "seqx",
		Run: func(ctx *core.Ctx, tier string) {
			p := mk(tier)
			ctx.Rep.Rule = p.Rule
			runSeq(ctx, p)
		},
		Replay: seqReplay(mk),
		Budget: map[string]time.Duration{"quick": quick, "thorough": thorough}}
}

func init() {
	// C01 — RFC 6902 result (v5)
	registerSeq("C01", func(tier string) *seqProp {
		p := &seqProp{ID: "C01", Docs: Dq, Opts: optsNeg(defaultOpt), Depth: 2,
			Judge: func(r *seqRun) { judgeResult(r, false) },
			Rule: "all operation sequences of length <= depth over the alphabet Sigma(D) recomputed from the current reference state " +
				"(every resolvable pointer + near-misses x 8 patch values x 6 operations), on each curated document, SupportNegativeIndices on/off; " +
				"a case is one (document, options, sequence); states = distinct (options, reference document) reached"}
		if tier == "thorough" {
			p.Depth = 3
			p.Alpha = []*AlphaCfg{{}, {}, thirdLevel}
		}
		return p
	}, 100*time.Second, 25*time.Minute)
}

// thirdLevel is the reduced alphabet used at depth >= 3.
var thirdLevel = &AlphaCfg{
	Values:     []*rj.Value{patchValues[0], patchValues[2], patchValues[6]},
	ReplValues: []*rj.Value{patchValues[2]},
}
