package main

import (
	"encoding/json"
	"fmt"
	"strings"
	"sync/atomic"
	"time"

	"verif.local/h/core"
	"verif.local/h/impl"
	r69 "verif.local/h/ref6902"
	rj "verif.local/h/refjson"
)

func optsNeg(base r69.Options) []r69.Options {
	a, b := base, base
	a.Neg, b.Neg = true, false
	return []r69.Options{a, b}
}

var defaultOpt = r69.Options{Neg: true, EscapeHTML: true}

func seqReplay(mk func(tier string) *seqProp) func(ctx *core.Ctx, c json.RawMessage) {
	return func(ctx *core.Ctx, raw json.RawMessage) {
		var c SeqCase
		if err := json.Unmarshal(raw, &c); err != nil {
			panic(err)
		}
		p := mk("quick")
		ops, err := jToOps(c.Ops)
		if err != nil {
			panic(err)
		}
		d, err := rj.Parse([]byte(c.Doc))
		if err != nil {
			d = rj.NewObj() // documents outside JSON are judged by their own oracles
		}
		p.UseDefaults = c.UseDefaults
		implSet(p, c.Opt)
		if c.Lib == "v5" && !c.UseDefaults {
			restore := impl.SetV5HostileDefaults(c.Opt)
			defer restore()
		}
		r := &seqRun{p: p, ctx: ctx, doc: d, dtxt: c.Doc, ops: ops, opt: c.Opt}
		r.ref = r69.Apply(d, ops, c.Opt)
		r.obs = r.exec("")
		p.Judge(r)
	}
}

func registerSeq(id string, mk func(tier string) *seqProp, quick, thorough time.Duration) {
	registerSeqMulti(id, func(tier string) []*seqProp { return []*seqProp{mk(tier)} }, quick, thorough)
}

// registerSeqPlus: a seqx check with an extra (mergex) phase.
func registerSeqPlus(id string, extra func(ctx *core.Ctx, tier string), mk func(tier string) []*seqProp, quick, thorough time.Duration) {
	registerSeqMulti(id, mk, quick, thorough)
	ck := checks[id]
	ck.Engine = "seqx+mergex"
	run, replay := ck.Run, ck.Replay
	ck.Run = func(ctx *core.Ctx, tier string) {
		run(ctx, tier)
		rule := ctx.Rep.Rule
		tr, va := ctx.Rep.Trans, ctx.Rep.Validated
		extra(ctx, tier)
		ctx.Rep.Rule = rule + " || MergePatch part: " + mergeRules[id]
		ctx.Rep.Validated = atomic.LoadInt64(&nExec)
		ctx.Rep.Evals = ctx.Rep.Validated
		ctx.Rep.Trans = tr + (ctx.Rep.Validated - va)
	}
	ck.Replay = func(ctx *core.Ctx, raw json.RawMessage) {
		var probe struct {
			Func string `json:"func"`
		}
		json.Unmarshal(raw, &probe)
		if probe.Func != "" {
			mergeReplay(ctx, id, raw)
			return
		}
		replay(ctx, raw)
	}
}

var mergeRules = map[string]string{
	"C05": "every edge (object documents of V2 + documents with 1.0 / 1e400 / -0 / 23-digit literals) x (V2 + literal patches): result equals RFC 7396 with numbers by literal, surviving members lead in document order ahead of new ones, recursively",
	"C15": "every successful output of MergePatch / MergeMergePatches / CreateMergePatch over documents and patches with < > & U+2028/9 quotes backslashes control, non-BMP and lone-surrogate escapes in strings and names: well-formed (independent reader), UTF-8, equal to the reference value",
}

// registerSeqMulti: a check made of several exploration phases (e.g. v5 per-call
// options, v5 package defaults, legacy package globals).
func registerSeqMulti(id string, mk func(tier string) []*seqProp, quick, thorough time.Duration) {
	checks[id] = &check{Engine: "seqx",
		Run: func(ctx *core.Ctx, tier string) {
			rules := []string{}
			for _, p := range mk(tier) {
				rules = append(rules, p.Rule)
				runSeq(ctx, p)
			}
			ctx.Rep.Rule = strings.Join(rules, " || ")
		},
		Replay: func(ctx *core.Ctx, raw json.RawMessage) {
			var c SeqCase
			if err := json.Unmarshal(raw, &c); err != nil {
				panic(err)
			}
			// pick the phase the case came from
			for _, p := range mk("quick") {
				lib := "v5"
				if p.Legacy {
					lib = "v4"
				}
				if lib == c.Lib && p.UseDefaults == c.UseDefaults && p.PkgLimit == c.PkgLimit {
					seqReplay(func(string) *seqProp { return p })(ctx, raw)
					return
				}
			}
			panic("no phase matches the recorded case")
		},
		Budget: map[string]time.Duration{"quick": quick, "thorough": thorough}}
}

func init() {
	// C01 — RFC 6902 result (v5)
	registerSeqMulti("C01", func(tier string) []*seqProp {
		first := &AlphaCfg{InteriorNeg: true, Values: append(append([]*rj.Value(nil), patchValues...), longValue)}
		second := &AlphaCfg{Values: []*rj.Value{patchValues[0], patchValues[2], patchValues[3], patchValues[5], patchValues[6]}, MaxFroms: 8} // 1, null, {}, {"k":null}, [null]; 8 move/copy sources
		p := &seqProp{ID: "C01", Docs: Dq, Opts: optsNeg(defaultOpt), Depth: 2, Alpha: []*AlphaCfg{first, second},
			Judge: func(r *seqRun) { judgeResult(r, false) },
			Rule: "all operation sequences of length <= depth over the alphabet Sigma(D) recomputed from the current reference state " +
				"(every resolvable pointer + near-misses x 8 patch values (5 for the second operation) x 6 operations), on each curated document, SupportNegativeIndices on/off; " +
				"a case is one (document, options, sequence); states = distinct (options, reference document) reached"}
		if tier == "thorough" {
			p.Alpha = []*AlphaCfg{first, first}
			return append(append([]*seqProp{p}, sizePhases(p, tier, 3, false)...), deepPhase(p, first, DqCore)) // the deep phase last: it is the one a deadline may cut
		}
		mini := miniDeep(p, `{"a":{"x":{"y":1}},"k":[0]}`)
		// the package-level defaults (SupportNegativeIndices) through Apply AND ApplyIndent
		defs := &seqProp{ID: "C01", UseDefaults: true, Docs: []string{Dq[2], Dq[10]}, Opts: optsNeg(defaultOpt), Depth: 2,
			Alpha: []*AlphaCfg{{Values: v2, ReplValues: v1n}, {Values: v1n, ReplValues: v1n, Kinds: kinds("add", "remove", "test"), MaxFroms: 4}},
			Judge: func(r *seqRun) {
				if !judgeResult(r, false) || r.obs.Panic != "" || r.obs.DecodeErr != "" {
					return
				}
				oi := r.exec(" ")
				if oi.Panic == "" && (oi.Err == "") != (r.obs.Err == "") {
					r.viol("indent-variant-differs", "indent-variant-differs:"+r.lastKind(), fmt.Sprintf("package defaults: Apply err=%q, ApplyIndent err=%q out=%q", r.obs.Err, oi.Err, oi.Out))
				}
			},
			Rule: "package-level defaults (SupportNegativeIndices on/off set through the package variable) through Apply and ApplyIndent on two array documents, depth 2: reference result, and ApplyIndent succeeds exactly when Apply does"}
		return append([]*seqProp{p, mini, microDeep(p, `{"a":[1]}`, 4), defs, scalePhase(p)}, sizePhases(p, tier, 3, false)...)
	}, 240*time.Second, 25*time.Minute)
}

// DqCore: the documents used for depth-3 exploration (one per structural family).
var DqCore = []string{Dq[0], Dq[2], Dq[3], Dq[13]}

// alphabets of the depth-3 phases: full first operation, reduced second and third
var (
	midLevel  = &AlphaCfg{Values: v2, ReplValues: []*rj.Value{patchValues[2], patchValues[5]}, MaxFroms: 5} // replace by null and by {"k":null}
	lastLevel = &AlphaCfg{Values: v1n, ReplValues: v1n, Kinds: kinds("test", "remove", "copy", "move"), MaxFroms: 5}
)

// deepPhase: p's depth-3 companion on DqCore (thorough tier).
func deepPhase(p *seqProp, first *AlphaCfg, docs []string) *seqProp {
	d := *p
	d.Docs = docs
	d.Depth = 3
	m, l := *midLevel, *lastLevel
	m.NoRootAdd, l.NoRootAdd = first.NoRootAdd, first.NoRootAdd
	f := *first
	if f.MaxFroms == 0 {
		f.MaxFroms = 10
	}
	d.Alpha = []*AlphaCfg{&f, &m, &l}
	d.Rule = "DEPTH 3 on " + fmt.Sprint(len(docs)) + " core documents: full alphabet for the first operation, {1,null} values (replace: null, {\"k\":null}) for the second, {test, remove, copy, move} for the third; same oracle"
	return &d
}

// miniDeep: the small depth-3 phase the quick tiers carry - one tiny document, first option set only,
// {add, replace, remove, move} ; {add, replace, remove, copy} ; {test, remove, copy, move}.
func miniDeep(p *seqProp, doc string) *seqProp {
	vals := []*rj.Value{patchValues[2], patchValues[5]}
	nra := len(p.Alpha) > 0 && p.Alpha[0].NoRootAdd
	m := deepPhase(p, &AlphaCfg{Values: v2, ReplValues: vals, Kinds: kinds("add", "replace", "remove"), NoRootAdd: nra}, []string{doc})
	m.Opts = p.Opts[:1]
	m.Alpha[1] = &AlphaCfg{Values: v2, ReplValues: vals, Kinds: kinds("add", "replace", "remove", "copy"), MaxFroms: 2, NoRootAdd: nra}
	m.Alpha[2] = &AlphaCfg{Values: v1n, ReplValues: v1n, Kinds: kinds("test", "remove", "copy", "move"), MaxFroms: 2, NoRootAdd: nra}
	m.Rule = "DEPTH 3 on one tiny document: {add, replace, remove} first, {add, replace, remove, copy} second, {test, remove, copy, move} third - incl. probes for stale state (the starting document's values and locations)"
	return m
}

// microDeep: DEPTH 4 (thorough 5) on one micro document with one value per level - state that survives
// two intermediate successful steps.
func microDeep(p *seqProp, doc string, depth int) *seqProp {
	d := *p
	d.Docs = []string{doc}
	d.Depth = depth
	d.Opts = p.Opts[:1]
	nra := len(p.Alpha) > 0 && p.Alpha[0].NoRootAdd
	lv := func(vals []*rj.Value, ks ...string) *AlphaCfg {
		return &AlphaCfg{Values: vals, ReplValues: v1n, Kinds: kinds(ks...), MaxFroms: 2, NoRootAdd: nra, NoRootPtr: true}
	}
	d.Alpha = []*AlphaCfg{lv(v2, "add", "replace", "remove"), lv(v1n, "add", "move"), lv(v1n, "copy", "remove")}
	for i := 3; i < depth-1; i++ {
		d.Alpha = append(d.Alpha, lv(v1n, "add", "remove"))
	}
	d.Alpha = append(d.Alpha, lv(v1n, "test", "remove", "copy", "move", "add"))
	d.Rule = fmt.Sprintf("DEPTH %d on one micro document, first option set: {add,replace,remove} ; {add,move} ; {copy,remove} ; ({add,remove} ;) {test,remove,copy,move,add}, values 1/null - incl. probes for stale state", depth)
	return &d
}

// thirdLevel is the reduced alphabet used at depth >= 3.
var thirdLevel = &AlphaCfg{
	Values:     []*rj.Value{patchValues[0], patchValues[2], patchValues[6]},
	ReplValues: []*rj.Value{patchValues[2]},
}

var (
	v3  = []*rj.Value{patchValues[0], patchValues[2], patchValues[5]} // 1, null, {"k":null}
	v2  = []*rj.Value{patchValues[0], patchValues[2]}
	v1n = []*rj.Value{patchValues[2]}
)

func kinds(ks ...string) map[string]bool {
	m := map[string]bool{}
	for _, k := range ks {
		m[k] = true
	}
	return m
}

func init() {
	// C05 — order and literals (Apply part; the MergePatch part is added by mergex)
	registerSeqPlus("C05", func(ctx *core.Ctx, tier string) {
		v2 := famV2()
		lits := parseAll([]string{`{"n":1.0,"e":1e400,"z":-0,"big":12345678901234567890123}`, `{"b":2,"a":1,"c":{"z":1.50,"y":2}}`, `{"c":{"y":null,"x":1.0},"d":0.10,"a":1E2}`, `{"z":{"n":-0.0}}`})
		docs := append(onlyObjs(v2), lits...)
		runMergeEdges(ctx, "C05", false, docs, append(append([]*rj.Value(nil), v2...), lits...), mergeCfg{ordered: true})
		// three names: a created member whose name sorts between two survivors (order must be creation order, not name order)
		o3 := objectsOver([]string{"a", "m", "z"}, parseAll([]string{`1`, `null`, `{"x":1}`}))
		p3 := objectsOver([]string{"a", "b", "y", "zz"}, parseAll([]string{`2`, `null`}))
		runMergeEdges(ctx, "C05", false, o3, p3, mergeCfg{ordered: true})
		w40 := rj.MustParse(wide40())
		many := rj.NewObj()
		for i := 0; i < 20; i++ {
			many.O = append(many.O, rj.Member{Name: fmt.Sprintf("new%02d", i), V: rj.MustParse(`1.50`)})
		}
		runMergeEdges(ctx, "C05", false, []*rj.Value{w40, rj.NewObj(rj.Member{Name: "in", V: w40})}, []*rj.Value{many, rj.NewObj(rj.Member{Name: "in", V: many}), rj.MustParse(`{"k01":{"x":null},"k11":{"y":2},"k21":{"z":3}}`)}, mergeCfg{ordered: true})
	}, func(tier string) []*seqProp {
		p := &seqProp{ID: "C05", Docs: Dq, Opts: []r69.Options{defaultOpt}, Depth: 2,
			Judge: func(r *seqRun) { judgeResult(r, true) },
			Rule: "as C01 (SupportNegativeIndices on), judged with ORDERED equality: member order must equal the reference's " +
				"(survivors keep relative order, created members appended in creation order, replace/add-on-existing keep position) and every number literal must be byte-identical; includes the empty patch on every document"}
		if tier == "thorough" {
			return append(append([]*seqProp{p, stringTokenPhase(p, 5)}, sizePhases(p, tier, 2, false)...), deepPhase(p, &AlphaCfg{}, append(append([]string(nil), DqCore...), Dq[4])))
		}
		return append([]*seqProp{p, miniDeep(p, `{"b":{"y":1.0,"x":null},"a":[1e400]}`), scalePhase(p), stringTokenPhase(p, 4)}, sizePhases(p, tier, 2, false)...)
	}, 240*time.Second, 25*time.Minute)

	// C08 — failures return nothing and say why
	registerSeqMulti("C08", func(tier string) []*seqProp {
		var opts []r69.Options
		for _, neg := range []bool{true, false} {
			for _, am := range []bool{false, true} {
				for _, lim := range []int64{0, 6} {
					if !neg && tier != "thorough" && (am == (lim == 6)) {
						continue // quick: with negatives off only (strict, limit 6) and (tolerant, no limit)
					}
					opts = append(opts, r69.Options{Neg: neg, AllowMissing: am, Limit: lim, EscapeHTML: true})
				}
			}
		}
		opts = append(opts, r69.Options{Neg: true, Ensure: true, EscapeHTML: true}, r69.Options{Neg: false, Ensure: true, AllowMissing: true, Limit: 6})
		docs := []string{Dq[0], Dq[1], Dq[2], Dq[3], Dq[6], Dq[7]}
		a := &AlphaCfg{Values: v3, ReplValues: v2}
		p := &seqProp{ID: "C08", Docs: docs, Opts: opts, Depth: 2, Alpha: []*AlphaCfg{a}, Judge: judgeC08,
			Rule: "all sequences <= depth over Sigma(D) (3 value shapes) under 8 (thorough 10) option combinations that change failure causes " +
				"(negatives, AllowMissingPathOnRemove, copy limit, EnsurePathExistsOnAdd); every failing sequence is judged for (nil document, non-nil error, " +
				"errors.Is/As class vs. the reference's cause) and re-run with each of 6 further operations appended (outcome must be identical)"}
		if tier == "thorough" {
			p.Docs = Dq
			p.Alpha = []*AlphaCfg{{}, a}
		}
		return []*seqProp{p, presencePhase()}
	}, 240*time.Second, 25*time.Minute)

	// C13 — AllowMissingPathOnRemove
	registerSeqMulti("C13", func(tier string) []*seqProp {
		opts := optsNeg(r69.Options{AllowMissing: true, EscapeHTML: true})
		a := &AlphaCfg{Values: v2, ReplValues: v1n, InteriorNeg: true}
		a2 := &AlphaCfg{Values: v2, ReplValues: v1n, MaxFroms: 6}
		p := &seqProp{ID: "C13", Docs: Dq, Opts: opts, Depth: 2, Alpha: []*AlphaCfg{a, a2}, Judge: judgeC13,
			Rule: "option on x negatives on/off x all sequences <= depth (removes of existing / absent-member / out-of-range / absent-ancestor targets mixed with all other operations); " +
				"each judged against the reference AND differentially on the real code: Apply(on, P) must equal Apply(off, P minus the removes the reference marks skipped) in bytes or in error"}
		if tier == "thorough" {
			p.Alpha = []*AlphaCfg{{InteriorNeg: true}, a}
			d := deepPhase(p, a, DqCore)
			d.Alpha[2] = &AlphaCfg{Values: v1n, ReplValues: v1n, Kinds: kinds("remove", "move", "add", "test")}
			return append(append([]*seqProp{p, widthSizePhase(p, []int{31, 32, 33, 63, 64, 65, 127, 128, 129}, 4, false)}, sizePhases(p, tier, 3, true)...), d)
		}
		return []*seqProp{p, miniDeep(p, `{"a":{"x":{"y":1}},"k":[0]}`),
			widthSizePhase(p, []int{0, 1, 2, 7, 8, 9, 15, 16, 17, 31, 32, 33, 63, 64, 65, 127, 128, 129}, 3, false), widthSizePhase(p, []int{255, 256, 257, 1024}, 2, false), prefixNamesPhase(p)}
	}, 240*time.Second, 25*time.Minute)

	// C14 — EnsurePathExistsOnAdd
	registerSeqMulti("C14", func(tier string) []*seqProp {
		opts := []r69.Options{{Neg: true, Ensure: true, EscapeHTML: true}, {Neg: false, Ensure: true, EscapeHTML: true}}
		docs := []string{`{}`, `[]`, `{"a":{"b":{}},"m~~n":[]}`, `{"a":[{"b":[]}],"a/b":{"a":1},"a~1b":{"b":2}}`, `[[],{"a":[1]}]`, `{"b":[1,[2]],"a":{"a/b":{}}}`}
		el := 3
		if tier == "thorough" {
			el = 4
		}
		first := &AlphaCfg{EnsureLen: el, Values: []*rj.Value{patchValues[0], patchValues[5]}}
		p := &seqProp{ID: "C14", Docs: docs, Opts: opts, Depth: 2, Alpha: []*AlphaCfg{first, {Values: v2, ReplValues: v1n, MaxFroms: 6}}, Judge: judgeC14,
			Rule: "option on: every add path of 1..L tokens over {a, b, 'a/b', 'm~~n', 0, 1, 2} ('-' as last token only) x 2 values on documents in which every prefix length is already present, " +
				"followed by every further operation of Sigma(D); judged against reference ensure+add with ORDERED equality (frame: nothing off the path changes), " +
				"lookup of the value at the path in the output, and agreement with plain add wherever plain add succeeds"}
		// the other order: an ordinary operation first (remove / move shrink arrays in place), then an
		// add that has to create parents and pad arrays
		rev := &seqProp{ID: "C14", Docs: []string{`{"a":[{"k":1},{"k":2},{"k":3}],"b":{"a":[1]}}`, `[[1,2,3],{"a":[]}]`}, Opts: opts[:1], Depth: 2,
			Alpha: []*AlphaCfg{{Values: v1n, ReplValues: v1n, Kinds: kinds("remove", "move", "replace")}, {EnsureLen: 3, Values: []*rj.Value{patchValues[0]}}}, Judge: judgeC14,
			Rule: "option on, the other order: every remove / move / replace first, then every add path of 1..3 tokens (parents created, arrays padded after they shrank); same oracle"}
		if tier == "thorough" {
			p.Alpha = []*AlphaCfg{first, {}}
		}
		// member names that LOOK numeric without being array indices: digits outside ASCII, exponent / hex / decimal
		// spellings - the created parent must be an object and the name one of its members
		oddNames := func(d *rj.Value) []r69.Op {
			toks := []string{"\u0663", "\uff11\uff12", "1e2", "0x1", "1.0", "\u0967\u0968", "a", "0"}
			var ops []r69.Op
			for _, t1 := range toks {
				ops = append(ops, r69.Op{Kind: "add", Path: "/" + t1, Value: patchValues[0], HasValue: true})
				for _, t2 := range toks {
					ops = append(ops, r69.Op{Kind: "add", Path: "/" + t1 + "/" + t2, Value: patchValues[0], HasValue: true},
						r69.Op{Kind: "add", Path: "/new/" + t1 + "/" + t2, Value: patchValues[0], HasValue: true},
						r69.Op{Kind: "add", Path: "/a/" + t1 + "/" + t2, Value: patchValues[0], HasValue: true})
				}
			}
			return ops
		}
		odd := &seqProp{ID: "C14", Docs: []string{`{}`, `{"a":{"b":1}}`, `{"a":[]}`}, Opts: opts[:1], Depth: 2,
			Alpha: []*AlphaCfg{{Custom: oddNames}, {Values: v1n, ReplValues: v1n, Kinds: kinds("test", "remove"), MaxFroms: 1}}, Judge: judgeC14,
			Rule: "option on: add paths of 1..3 tokens over member names that look numeric without being indices (Arabic-Indic, Devanagari and fullwidth digits, 1e2, 0x1, 1.0) next to a and 0, then test / remove; same oracle"}
		// indices beyond the usual small ones: padding to 255 / 256 / 300, below and beyond a 260-element array
		bigIdx := func(d *rj.Value) []r69.Op {
			var ops []r69.Op
			for _, pth := range []string{"/n/255", "/n/256", "/n/300", "/n/b/256", "/a/259/x", "/a/260/x", "/a/262/x", "/a/-", "/a/256", "/a/300", "/a/255/i2"} {
				ops = append(ops, r69.Op{Kind: "add", Path: pth, Value: patchValues[0], HasValue: true})
			}
			return ops
		}
		small := func(d *rj.Value) []r69.Op {
			return []r69.Op{{Kind: "test", Path: "/n/256", Value: patchValues[0], HasValue: true}, {Kind: "test", Path: "/n/300", Value: patchValues[0], HasValue: true},
				{Kind: "test", Path: "/a/262/x", Value: patchValues[0], HasValue: true}, {Kind: "test", Path: "/n/44", Value: rj.NewNull(), HasValue: true},
				{Kind: "remove", Path: "/a/0"}, {Kind: "add", Path: "/n/b/300", Value: patchValues[0], HasValue: true}, {Kind: "test", Path: "/a/6", Value: rj.MustParse(`{"i":6}`), HasValue: true}}
		}
		big := &seqProp{ID: "C14", Docs: []string{`{}`, scaleDocs[2]}, Opts: opts[:1], Depth: 2, Alpha: []*AlphaCfg{{Custom: bigIdx}, {Custom: small}}, Judge: judgeC14,
			Rule: "option on, SCALE: add paths whose indices lie around 255|256|300 on an empty document and on a 260-element array, followed by probes of the padded positions; same oracle"}
		// three steps: an ensure-add ; a copy over (part of) the path just created ; another ensure-add under the same parent
		m1 := &AlphaCfg{EnsureLen: 2, Values: []*rj.Value{patchValues[0]}}
		m3 := &AlphaCfg{EnsureLen: 3, Values: []*rj.Value{patchValues[0]}}
		// ... and on documents that already are three levels deep: copy or test (an ancestor gets encoded mid-patch),
		// then an add of up to 3 tokens (two levels below it)
		mini2 := &seqProp{ID: "C14", Docs: []string{`{"a":{"b":{"a":1}},"b":[{"a":{}}]}`, `{"a":{"a":{"a":{}}}}`}, Opts: opts[:1], Depth: 2,
			Alpha: []*AlphaCfg{{Kinds: kinds("copy", "test"), MaxFroms: 6, Values: v1n}, m3}, Judge: judgeC14,
			Rule: "option on: copy or test first (an ancestor object gets encoded mid-patch), then every add path of <= 3 tokens, on two documents that are three levels deep; same oracle"}
		mini := &seqProp{ID: "C14", Docs: []string{`{"tpl":{"keep":true},"z":{},"a":[]}`}, Opts: opts[:1], Depth: 3,
			Alpha: []*AlphaCfg{m1, {Kinds: kinds("copy", "test"), MaxFroms: 4, Values: v1n}, m1}, Judge: judgeC14,
			Rule: "option on, DEPTH 3: add path of <= 2 tokens ; copy or test ; add path of <= 2 tokens (the second add must not rely on anything remembered from the first)"}
		return []*seqProp{p, rev, big, mini, mini2, odd}
	}, 240*time.Second, 25*time.Minute)

	// C15 — well-formed outputs, escaping, indentation (Apply part)
	registerSeqPlus("C15", func(ctx *core.Ctx, tier string) {
		runMergeOutputs(ctx, tier)
	}, func(tier string) []*seqProp {
		// (the last one: a copy limit that is set but never reached - the limit must not change how anything is spelled)
		opts := []r69.Options{{Neg: true, EscapeHTML: true}, {Neg: true, EscapeHTML: false}, {Neg: true, EscapeHTML: false, Ensure: true}, {Neg: true, EscapeHTML: false, Limit: 1 << 40}}
		docs := []string{
			`{"h":"<>&","<k>":{"x":"a<b"},"a":[1,"&"]}`,
			"{\"u\":\"\u2028x\u2029\",\"q\":\"\\\"\\\\\\n\",\"s\":{\"\U0001F600\":\"\\ud83d\\ude00\",\"l\":\"\\ud800\"}}",
			`{"a":{"b":"<"},"c":["<",{"d":"&"}]}`,
			`{}`, `[]`, `[{"<":1},"\u001f>"]`, " [ ] ", "{\"e\":[ ],\"f\":[\n],\"g\":{ }}",
			// neighbours (one bit away in some UTF-8 byte) of the characters the escaper special-cases
			"{\"n\":\"\u2068x\u2069 \u2027\u202a\u2038\u20a8\u2128 \u00a8\",\"\u2069k\":[\"\u2068\"]}",
			// duplicate member names: no value oracle applies, the output must still be JSON
			`{"a":1,"a":2,"b":3}`, `{"x":{"a":1,"a":{"a":2},"b":"<"}}`,
		}
		vals := parseAll([]string{`"<"`, `{"&":">"}`, `null`, `[1]`})
		// new member names that need escaping on output: a quote and <, a backslash, a control character, U+2028
		a := &AlphaCfg{Values: vals, ReplValues: vals[:3], NewNames: []string{`q"<`, `c\d`, "\u0001x\u2028"}}
		p := &seqProp{ID: "C15", Docs: docs, Opts: opts, Depth: 2, Alpha: []*AlphaCfg{a}, Judge: judgeC15,
			Rule: "EscapeHTML on/off x documents and patch values containing < > & U+2028/9 quotes backslashes control, non-BMP and lone-surrogate escapes x all sequences <= depth; " +
				"every successful output must parse (independent reader), be UTF-8, equal the reference value, obey the escaping clause, equal the independently re-indented Apply output for 3 indent strings, " +
				"and be byte-identical to the output of the same patch with its (passing) test operations deleted"}
		if tier == "thorough" {
			d := *p
			d.Docs = []string{docs[0], docs[2], docs[5], docs[7]}
			d.Depth = 3
			d.Alpha = []*AlphaCfg{a, {Values: vals[:2], ReplValues: vals[:1], MaxFroms: 4}, {Values: vals[:1], ReplValues: vals[:1], Kinds: kinds("test", "add", "move", "copy"), MaxFroms: 4}}
			d.Rule = "DEPTH 3 on four documents with reduced second/third alphabets; same oracle"
			return []*seqProp{p, &d, stringSizePhase(p, tier), stringTokenPhase(p, 5)}
		}
		return []*seqProp{p, stringSizePhase(p, tier), stringTokenPhase(p, 4)}
	}, 240*time.Second, 25*time.Minute)

	// C18 — legacy Apply
	registerSeqMulti("C18", func(tier string) []*seqProp {
		docs := []string{Dq[0], Dq[1], Dq[2], Dq[3], Dq[6], Dq[7], Dq[12], Dq[10], Dq[11],
			`{"n":1.0,"e":1e400,"z":-0,"big":12345678901234567890123,"s":"plain"}`}
		a := &AlphaCfg{NoRootAdd: true, InteriorNeg: true}
		p := &seqProp{ID: "C18", Legacy: true, Docs: docs, Opts: optsNeg(r69.Options{EscapeHTML: true}), Depth: 2, Alpha: []*AlphaCfg{a}, Judge: judgeC18,
			Rule: "legacy package (built as module github.com/evanphx/json-patch from the working tree through an overlay go.mod): the C01 space without add \"\" and copy from \"\"; " +
				"sequences the reference evaluates successfully must succeed with a structurally equal document (member order ignored, number literals kept); " +
				"sequences whose first inapplicable operation is a failed test, a remove/move of an absent target or an out-of-range index must return an error and no document; other failures are outside the stated domain"}
		if tier == "thorough" {
			p.Docs = append(p.Docs, Dq[12], Dq[13])
			return append(append([]*seqProp{p}, sizePhases(p, tier, 3, false)...), deepPhase(p, a, []string{Dq[0], Dq[2], Dq[3], Dq[10]}))
		}
		// a small depth-3 phase on every change (it finds the copied-null defect of the legacy package)
		mini := miniDeep(p, `{"a":{"x":{"y":1}},"k":[0]}`)
		return append([]*seqProp{p, mini, scalePhase(p)}, sizePhases(p, tier, 3, false)...)
	}, 240*time.Second, 25*time.Minute)
}

func init() {
	// C12 — accumulated copy-size limit: v5 per-call option, v5 package default, legacy package global
	registerSeqMulti("C12", func(tier string) []*seqProp {
		docs := []string{
			`{"h":"<&>","w":[ 1 , 2 ],"n":null,"o":{"<":"x"}}`,
			`[ "a<b", null, {"k": [1, 2]} ]`,
			`{"s":"0123456789"}`,
		}
		vals := parseAll([]string{`"<"`, `null`})
		a := &AlphaCfg{Values: vals, ReplValues: vals[:1], Kinds: kinds("copy", "add", "remove", "replace")}
		tail := &AlphaCfg{Kinds: kinds("copy")}
		perCall := &seqProp{ID: "C12", Docs: docs, Opts: []r69.Options{{Neg: true, EscapeHTML: true}, {Neg: true, EscapeHTML: false}}, Depth: 2,
			Alpha: []*AlphaCfg{a, tail}, Judge: judgeC12,
			Rule: "v5 per-call option: all sequences <= depth over {copy, add, remove, replace} (copy-only tail) on documents with HTML characters, whitespace-spelled arrays and nulls, EscapeHTML on/off; " +
				"for each sequence the reference computes the running copied-bytes total T_k after every copy (canonical compact spelling under the current escaping; a copied null counts 0..4) and the sequence is re-run under every limit in {1, T_k-1, T_k, T_k+1, 2^40}: " +
				"*AccumulatedCopySizeError exactly at the first copy with total > limit, never otherwise, nil document, limit 0 never trips"}
		var limOpts []r69.Options
		maxL := int64(24)
		if tier == "thorough" {
			maxL = 64
		}
		for l := int64(0); l <= maxL; l++ {
			limOpts = append(limOpts, r69.Options{Neg: true, EscapeHTML: true, Limit: l})
		}
		small := []string{`{"s":"0123456789","n":null}`, `[ "a<b", [1, 2] ]`}
		sa := &AlphaCfg{Values: vals[:1], ReplValues: vals[:1], Kinds: kinds("copy", "add", "remove")}
		defaults := &seqProp{ID: "C12", UseDefaults: true, Docs: small, Opts: limOpts, Depth: 2, Alpha: []*AlphaCfg{sa, tail}, Judge: judgeC12Fixed,
			Rule: "v5 package default (AccumulatedCopySizeLimit variable, read by NewApplyOptions via Apply): every limit 0..N x all sequences <= depth on 2 documents, same oracle"}
		legacy := &seqProp{ID: "C12", Legacy: true, Docs: small, Opts: limOpts, Depth: 2,
			Alpha: []*AlphaCfg{{Values: vals[:1], ReplValues: vals[:1], Kinds: kinds("copy", "add", "remove"), NoRootAdd: true}, {Kinds: kinds("copy"), NoRootAdd: true}}, Judge: judgeC12Fixed,
			Rule: "legacy package global AccumulatedCopySizeLimit: every limit 0..N x all sequences <= depth on 2 documents, same oracle (sizes with HTML escaping, which the legacy encoder always applies)"}
		var extra []*seqProp
		if tier == "thorough" {
			// depth 3 with per-call limits (the limit window is recomputed per sequence); the package-level
			// configurations keep depth 2 over all limits 0..64 and get depth 3 for five limits
			pc3 := *perCall
			pc3.Docs = docs[1:2]
			pc3.Depth = 3
			pc3.Alpha = []*AlphaCfg{a, tail, tail}
			pc3.Rule = "v5 per-call option, DEPTH 3 on one document (operation ; copy ; copy), limits around every total"
			extra = append(extra, &pc3)
			var few []r69.Options
			for _, l := range []int64{0, 5, 13, 21, 40} {
				few = append(few, r69.Options{Neg: true, EscapeHTML: true, Limit: l})
			}
			d3, l3 := *defaults, *legacy
			d3.Opts, l3.Opts = few, few
			d3.Depth, l3.Depth = 3, 3
			d3.Alpha = []*AlphaCfg{sa, tail, tail}
			l3.Alpha = []*AlphaCfg{legacy.Alpha[0], legacy.Alpha[1], legacy.Alpha[1]}
			d3.Rule, l3.Rule = "v5 package default, DEPTH 3, limits {0,5,13,21,40}", "legacy package global, DEPTH 3, limits {0,5,13,21,40}"
			extra = append(extra, &d3, &l3)
		}
		// copy ; replace the whole document ; copy - the running total must survive a root replacement
		rootVals := parseAll([]string{`{"q":[]}`, `[[]]`})
		viaRoot := &seqProp{ID: "C12", Docs: docs, Opts: []r69.Options{{Neg: true, EscapeHTML: true}}, Depth: 3,
			Alpha: []*AlphaCfg{tail, {Values: rootVals, ReplValues: rootVals, Kinds: kinds("add", "replace"), RootOnly: true}, {Kinds: kinds("copy", "add"), Values: vals[:1]}}, Judge: judgeC12,
			Rule: "v5 per-call option, DEPTH 3 of the shape copy ; add/replace of the whole document ; copy-or-add: the running total carries over a root replacement (limits around every total as in the first phase)"}
		// compounding copies: the same whole-document copy up to 8 times (the total doubles each time)
		selfCopy := func(d *rj.Value) []r69.Op {
			return []r69.Op{{Kind: "copy", From: "", Path: "/-"}, {Kind: "copy", From: "/0", Path: "/-"}}
		}
		chain := &seqProp{ID: "C12", Docs: []string{`["xxxxxxxxxxxxxxxx"]`}, Opts: []r69.Options{{Neg: true, EscapeHTML: true}}, Depth: 8,
			Alpha: []*AlphaCfg{{Custom: selfCopy}}, Judge: judgeC12,
			Rule: "v5 per-call option, DEPTH 8 chains of whole-document / first-element copies on a one-element array (totals compound: 20, 60, 140, ... bytes); limits around every running total"}
		// a source larger than 4 KiB spelled with insignificant whitespace, raw and after an operation has parsed it
		var pretty strings.Builder
		pretty.WriteString("{\"big\": [\n")
		for i := 0; i < 420; i++ {
			if i > 0 {
				pretty.WriteString(" ,\n")
			}
			fmt.Fprintf(&pretty, "    \"s%03d<\"", i)
		}
		pretty.WriteString("\n  ] ,\n \"k\" : 1 }")
		bigSrc := func(d *rj.Value) []r69.Op {
			return []r69.Op{{Kind: "copy", From: "/big", Path: "/c"}, {Kind: "test", Path: "/big/0", Value: rj.MustParse(`"s000<"`), HasValue: true},
				{Kind: "copy", From: "/big", Path: "/big/-"}, {Kind: "copy", From: "/k", Path: "/k2"}, {Kind: "copy", From: "/c", Path: "/c2"}}
		}
		large := &seqProp{ID: "C12", Docs: []string{pretty.String()}, Opts: []r69.Options{{Neg: true, EscapeHTML: true}, {Neg: true, EscapeHTML: false}}, Depth: 3,
			Alpha: []*AlphaCfg{{Custom: bigSrc}}, Judge: judgeC12,
			Rule: "v5 per-call option, SCALE: an 8 KB pretty-printed array copied raw, after a test has parsed it, and as a copy of the copy, sequences <= 3, limits around every total (the duplicate is compact: 2.5 / 4.6 KB)"}
		return append([]*seqProp{perCall, defaults, legacy, viaRoot, chain, large}, extra...)
	}, 240*time.Second, 25*time.Minute)
}

func init() {
	registerMerge("C02", func(ctx *core.Ctx, tier string) {
		v1, v2 := famV1(), famV2()
		ctx.Rep.Rule = "all edges D x P: MergePatch(D,P) vs RFC 7396 pseudo-code on refjson trees. quick: V3xV3 (values of depth <= 3 over names a,b,c; recursion through members that change type between object/array/scalar/null/absent); V2xV2 with patch and document also fed in spelling variants (members reversed, whitespace at every gap, \\u-escaped strings); (6 documents + V2) x 192 'wide' patches (all objects over 3 names with values absent/null/1/{q:null}, at the root and one and two levels down) in every spelling. thorough: V4xV4 (13^3 objects over a,b,c, arrays of <= 3 elements), V3xV3 in every spelling. " +
			"states = distinct documents (inputs and results); non-trivial = distinct result documents"
		wide := wideObjects()
		var nested []*rj.Value
		for _, w := range wide {
			nested = append(nested, rj.NewObj(rj.Member{Name: "a", V: w}), rj.NewObj(rj.Member{Name: "b", V: rj.NewObj(rj.Member{Name: "a", V: w})}))
		}
		small := parseAll([]string{`{}`, `{"a":1}`, `1`, `{"a":{"x":1,"z":2}}`, `{"x":1,"y":2,"z":3}`, `[1]`})
		_ = v1
		// "echo" edges: the patch repeats (part of) the document byte for byte, with values longer than
		// any short-cut threshold - a null inside the repeated object must still delete
		var echoDocs []*rj.Value
		pad := rj.NewStr(strings.Repeat("p", 80))
		for _, w := range wide {
			if !rj.HasNullMember(w) {
				continue
			}
			inner := rj.Clone(w)
			inner.O = append([]rj.Member{{Name: "pad", V: pad}}, inner.O...)
			echoDocs = append(echoDocs, rj.NewObj(rj.Member{Name: "a", V: inner}, rj.Member{Name: "k", V: rj.NewNum("1")}),
				rj.NewObj(rj.Member{Name: "b", V: rj.NewObj(rj.Member{Name: "a", V: rj.Clone(inner)})}))
		}
		runMergeEdges(ctx, "C02", false, echoDocs, echoDocs, mergeCfg{})
		look := pointerLookalikeObjects()
		runMergeEdges(ctx, "C02", false, append(look, rj.MustParse(`{"a":{"a/b":1,"a~1b":2}}`)), look, mergeCfg{})
		// SCALE: a 40-member document (nulls, nested objects, big literals) x patches with 16 / 17 / 40 members
		w40 := rj.MustParse(wide40())
		manyMembers := func(n int, val string) *rj.Value {
			o := rj.NewObj()
			for i := 0; i < n; i++ {
				o.O = append(o.O, rj.Member{Name: fmt.Sprintf("new%02d", i), V: rj.MustParse(val)})
			}
			return o
		}
		scalePatches := []*rj.Value{manyMembers(16, `1`), manyMembers(17, `1`), manyMembers(40, `{"q":null,"r":1}`), w40,
			rj.NewObj(rj.Member{Name: "k01", V: manyMembers(17, `null`)}), rj.NewObj(rj.Member{Name: "in", V: manyMembers(33, `{"z":null}`)})}
		runMergeEdges(ctx, "C02", false, []*rj.Value{w40, rj.NewObj(rj.Member{Name: "in", V: w40}), rj.MustParse(`{"k01":{"x":1,"n":null}}`)}, scalePatches, mergeCfg{})
		so := scaleObjects()
		runMergeEdges(ctx, "C02", false, so, so, mergeCfg{})
		runSizeSweep(ctx, "C02", false, tier, sizeWhat{merge: true})
		// the shortest objects that hold a null member, and names with DEL / control characters
		tiny := parseAll([]string{`{"":null}`, `{"a":{"":null}}`, `{"a":{"":null,"b":1}}`, `{"":{"":null}}`, "{\"a\u007fb\":1,\"c\":{\"\u007f\":null}}", "{\"\u007f\":{\"\\u007f\":2}}"})
		runMergeEdges(ctx, "C02", false, append(tiny, parseAll([]string{`{}`, `{"a":1}`, `{"":{"x":1}}`, `1`})...), tiny, mergeCfg{variants: true})
		if tier == "quick" {
			v3 := famV3()
			runMergeEdges(ctx, "C02", false, v3, v3, mergeCfg{})
			runMergeEdges(ctx, "C02", false, v2, v2, mergeCfg{variants: true})
			runMergeEdges(ctx, "C02", false, append(small, v2...), append(wide, nested...), mergeCfg{variants: true})
		} else {
			v4 := famV4()
			runMergeEdges(ctx, "C02", false, v4, v4, mergeCfg{})
			v3 := famV3()
			runMergeEdges(ctx, "C02", false, v3, v3, mergeCfg{variants: true})
			runMergeEdges(ctx, "C02", false, append(small, v3...), append(wide, nested...), mergeCfg{variants: true})
		}
	}, false)
	registerMerge("C03", func(ctx *core.Ctx, tier string) {
		v2 := famV2()
		objs := onlyObjs(v2)
		extra := parseAll([]string{`{"n":1.0}`, `{"n":1}`, `{"n":1e400}`, `{"n":12345678901234567890123}`, `{"n":12345678901234567890124}`, `{"n":-0}`, `{"n":0}`, `{"a":{"n":1.0}}`, `{"a":{"n":1.00}}`})
		objs = append(objs, extra...)
		arrs := parseAll([]string{`[]`, `[{}]`, `[{"a":1}]`, `[{"a":2}]`, `[{"a":1},{"b":null}]`, `[{"a":1},{"b":2}]`, `[{},{}]`, `[{"a":{"b":1}},{"a":[1]}]`, `[{"a":{"b":2}},{"a":[2]}]`})
		ctx.Rep.Rule = "all ordered pairs (A,B): objects of V3 (thorough: V4, 13^3 objects over a,b,c) (+ numbers beyond float64 precision) -> success, P={} iff A==B, minimality (every mentioned path differs, removed => null, values are B's literals), RFC round trip and library round trip when B has no null member; " +
			"pairs of arrays of objects; all pairs of other roots of V1, and all pairs of array roots of V2 plus arrays of arrays -> error unless both are equal-length arrays of objects (null roots / null elements: DontCare)"
		objs = append(onlyObjs(famV3()), extra...)
		if tier == "thorough" {
			objs = append(onlyObjs(famV4()), extra...)
		}
		runCreatePairs(ctx, "C03", false, objs, objs)
		runCreatePairs(ctx, "C03", false, arrs, arrs)
		v1 := famV1()
		runCreatePairs(ctx, "C03", false, v1, v1)
		// rejection clause on array roots: every array of V2 (elements: scalars, null, objects, arrays) and
		// arrays of arrays that bottom out in objects or in nothing - only equal-length arrays of objects pass
		var arrRoots []*rj.Value
		for _, v := range v2 {
			if v.K == rj.Arr {
				arrRoots = append(arrRoots, v)
			}
		}
		arrRoots = append(arrRoots, parseAll([]string{`[[]]`, `[[],[]]`, `[[{"a":1}]]`, `[[{"a":2}]]`, `[[[{"a":1}]]]`, `[{"a":1},[{"a":1}]]`, `[{"a":1},[{"a":2}]]`, `[[{}],{}]`, `[{},{},{}]`, `[{"a":[{"b":1}]}]`, `[{"a":[{"b":2}]}]`})...)
		runCreatePairs(ctx, "C03", false, arrRoots, arrRoots)
		scaleObjs := scaleObjects()
		runCreatePairs(ctx, "C03", false, scaleObjs, scaleObjs)
		nb := neighbourObjects()
		runCreatePairs(ctx, "C03", false, nb, nb)
		runSizeSweep(ctx, "C03", false, tier, sizeWhat{create: true})
	}, false)
	registerMerge("C06", func(ctx *core.Ctx, tier string) {
		ctx.Rep.Rule = "Equal(a,b) vs reference structural equality (numbers by literal; numerically-equal-but-differently-spelled pairs are DontCare) for all ordered pairs of V3 (quick) / V4 (thorough), each value also in reordered, whitespace-padded and \\u-escaped spellings; every JSON string escape (solidus, quote, backslash, b f n r t, uXXXX in both cases, surrogate pairs) in all spellings at the root, in arrays, as member value and as member name; " +
			"agreement with an equivalence relation on the whole set gives reflexivity, symmetry and transitivity there; on 31 texts with REPEATED member names (no value oracle) the three laws are checked directly over all pairs and triples; size sweeps: strings 0..130 and around 256..65536 bytes, objects and arrays of 0..70 and around 128..1024 parts, nesting 1..70 and around 100..1002, all pairs inside each cluster in every spelling; malformed inputs are added by bytex (see C04/C16 clauses in this check)"
		vs := famV3()
		if tier == "thorough" {
			vs = famV4()
		}
		vs = append(vs, parseAll([]string{`[{"a":1,"b":2}]`, `[{"a":1,"b":{"a":2,"b":null}},1]`, `{"a":[{"b":1,"a":{"b":2,"a":3}}]}`, `[[{"a":1,"b":2}],{"a":1,"b":2}]`})...)
		runEqualPairs(ctx, "C06", false, vs, true)
		runEqualPairs(ctx, "C06", false, scaleObjects(), true)
		runEqualPairs(ctx, "C06", false, neighbourObjects(), true)
		runSizeSweep(ctx, "C06", false, tier, sizeWhat{equal: true})
		runEqualEscapes(ctx, "C06")
		runEqualLaws(ctx, "C06")
		runEqualPadding(ctx, "C06")
		runEqualMalformed(ctx, "C06", tier)
	}, false)
	registerMerge("C07", func(ctx *core.Ctx, tier string) {
		ctx.Rep.Rule = "all triples (D,P1,P2): P1,P2 object patches (V3 objects; thorough: P2 over the 13^3 objects of V4) satisfying the compatibility condition (computed by the reference), plus non-object P2; D over V1 plus nested documents; " +
			"RFC-apply(D, MergeMergePatches(P1,P2)) == RFC-apply(RFC-apply(D,P1),P2); the same through the library's MergePatch on a sub-family; non-object P2 => result == P2"
		docs := append(famV1(), parseAll(membs2)...)
		ps := onlyObjs(famV3())
		p2s := append(append([]*rj.Value(nil), ps...), parseAll([]string{`[1]`, `"s"`, `1`, `null`, `[{"a":null}]`, `true`})...)
		if tier == "thorough" {
			p2s = append(append([]*rj.Value(nil), onlyObjs(famV4())...), parseAll([]string{`[1]`, `"s"`, `1`, `null`, `[{"a":null}]`, `true`})...)
		}
		runCompose(ctx, "C07", false, dedupe(docs), ps, p2s)
		// names that look like pointer escapes of one another, top level and nested
		look := pointerLookalikeObjects()
		var lookN []*rj.Value
		for _, o := range look {
			lookN = append(lookN, o, rj.NewObj(rj.Member{Name: "a", V: o}))
		}
		lookDocs := parseAll([]string{`{}`, `{"a/b":1,"a~1b":2,"m~n":3,"m~0n":4}`, `{"a":{"a/b":1,"a~1b":2,"m~n":3,"m~0n":4}}`, `{"a~1b":{"x":1}}`})
		runCompose(ctx, "C07", false, lookDocs, lookN, lookN)
		so := scaleObjects()
		narrow := parseAll([]string{`{}`, `{"m000":9,"z":1}`, `{"a":1,"b":{"c":2},"m001":{"y":2},"z":null}`, `{"k07":1,"k20":{"x":1},"m002":5,"m040":6,"z":[1]}`})
		runCompose(ctx, "C07", false, narrow, so, append(narrow, so[:6]...))
		runCompose(ctx, "C07", false, narrow, narrow, so)
		runSizeSweep(ctx, "C07", false, tier, sizeWhat{compose: true})
		// siblings one level down: every object over two names whose values are scalars, null, or small objects with
		// and without a null, wrapped in a member - a nested level where one sibling's merge is a no-op (the same
		// deletion in both patches) and the other's is a real change, in every map order
		sibVals := parseAll([]string{`1`, `2`, `null`, `{"x":null}`, `{"x":1}`, `{"x":null,"y":1}`})
		var sibs []*rj.Value
		for _, o := range objectsOver([]string{"a", "b"}, sibVals) {
			sibs = append(sibs, rj.NewObj(rj.Member{Name: "cfg", V: o}))
		}
		sibDocs := append(parseAll([]string{`{}`, `{"cfg":{"a":{"x":5,"y":6},"b":7,"c":8}}`, `{"cfg":{"a":1,"b":{"x":2}}}`, `{"cfg":null}`}), sibs[len(sibs)/2])
		runCompose(ctx, "C07", false, sibDocs, sibs, sibs)
	}, false)
}

func init() {
	// C16 — exactly RFC 8259: scanner product + bytex(a) + entry points + nesting limit
	registerMerge("C16", func(ctx *core.Ctx, tier string) {
		ctx.Rep.Rule = "(1) scanx: BFS over the synchronous product of the real scanner and a reference pushdown recogniser, all 256 bytes from every reachable state, stacks to depth 4: end-of-input acceptance must agree in every state (language equality for every length); " +
			"(2) bytex(a): every string over 33 byte-class representatives up to length L whose proper prefixes are viable (plus each with one killing byte): Valid/Compact/Indent/Unmarshal/UnmarshalWithKeys accept iff RFC 8259 does; every accepted string, also with leading/trailing whitespace, goes to every public entry point (must be accepted when of the right shape; value-preserving); " +
			"(3) bytex(b): every string over 16 symbols up to length 4 (thorough 5) in every []byte parameter of the v5 entry points: ill-formed => error (Equal: false); (4) nesting 9999/10000/10001; (5) string literals of every length 0..130 and around 256/1024/4096 bytes, plain and with one control byte / quote / escape / bad UTF-8 at the start, middle, end - codec functions and entry points; (8) runs of 1..64 blanks inserted at every byte position of a dozen short texts, runs of 1..33 digits after every number prefix and after \\u escapes; (7) 760 number literals (sign, four integer parts, five fractions, 19 exponent spellings incl. leading zeros) at the root, in an array and as member values; (6) one caller buffer per size 16..70000 handed to each entry point holding a well-formed text, then overwritten in place with an ill-formed one of the same length, then the well-formed one again. states = scanner product states + distinct well-formed strings"
		ctx.Phase("scanx", func() { runScanx(ctx, 4) })
		n, ne, nb := 5, 4, 4
		if tier == "thorough" {
			n, ne, nb = 7, 5, 5
		}
		ctx.Phase("bytex_a", func() { runBytexA(ctx, "C16", n, ne) })
		ctx.Phase("bytex_b", func() { runBytexB(ctx, "C16", nb, byteFlags{reject: true, accept: true, applyOK: true}) })
		ctx.Phase("string_shapes", func() { runStringShapes(ctx, "C16", byteFlags{reject: true, accept: true, applyOK: true}) })
		ctx.Phase("number_shapes", func() { runNumberShapes(ctx, "C16", byteFlags{reject: true, accept: true, applyOK: true}) })
		ctx.Phase("run_shapes", func() { runRunShapes(ctx, "C16", byteFlags{reject: true, accept: true, applyOK: true}) })
		ctx.Phase("buffer_reuse", func() { runBufferReuse(ctx, "C16") })
		ctx.Phase("deep", func() { runDeep(ctx, "C16", tier, true, true) })
	}, false)
}

func noFloatSpelling(vs []*rj.Value) []*rj.Value {
	var out []*rj.Value
	for _, v := range vs {
		if !strings.Contains(txt(v), "1.0") {
			out = append(out, v)
		}
	}
	return out
}

func containersOnly(vs []*rj.Value) []*rj.Value {
	var out []*rj.Value
	for _, v := range vs {
		if v.K == rj.Obj || v.K == rj.Arr {
			out = append(out, v)
		}
	}
	return out
}

func init() {
	// C19 — legacy merge functions, within the stated domains
	registerMerge("C19", func(ctx *core.Ctx, tier string) {
		ctx.Rep.Rule = "legacy package (overlay go.mod): MergePatch edges V2 x (object and array patches of V2, thorough V3); CreateMergePatch on all ordered pairs of V2 objects whose numbers are spelled as Go prints a float64 (minimality + round trip when B has no null member); " +
			"MergeMergePatches composition law on V2-object patches satisfying the compatibility condition; Equal on all ordered pairs of object/array-rooted values of V2 in reordered and whitespace-padded spellings (no escapes)"
		v1, v2 := famV1(), famV2()
		pats := containersOnly(v2)
		if tier == "thorough" {
			pats = containersOnly(famV3())
		}
		ctx.Phase("merge", func() { runMergeEdges(ctx, "C19", true, v2, pats, mergeCfg{}) })
		// number literals survive a merge in both patch shapes (array-rooted patches included)
		bigs := parseAll([]string{`[12345678901234567890]`, `[{"id":9007199254740993},1e400]`, `{"n":18446744073709551615,"a":[1.10,-0]}`, `{"a":{"n":1e400}}`, `[]`, `[1.0]`})
		ctx.Phase("merge_literals", func() {
			runMergeEdges(ctx, "C19", true, parseAll([]string{`{"a":1}`, `{"n":1,"a":{"n":2}}`, `[1]`, `"s"`}), bigs, mergeCfg{})
		})
		objs := noFloatSpelling(onlyObjs(v2))
		ctx.Phase("create", func() { runCreatePairs(ctx, "C19", true, objs, objs) })
		docs := append(append([]*rj.Value(nil), v1...), parseAll(membs2)...)
		ps := onlyObjs(v2)
		p2s := append(append([]*rj.Value(nil), ps...), parseAll([]string{`[1]`, `[{"a":null}]`, `[]`})...)
		ctx.Phase("compose", func() { runCompose(ctx, "C19", true, dedupe(docs), ps, p2s) })
		eqExtra := parseAll([]string{`[{"a":1,"b":2}]`, `[{"a":1,"b":{"a":2,"b":null}},1]`, `{"a":[{"b":1,"a":{"b":2,"a":3}}]}`, `[[{"a":1,"b":2}],{"a":1,"b":2}]`})
		ctx.Phase("equal", func() { runEqualPairs(ctx, "C19", true, append(containersOnly(v2), eqExtra...), true) })
		ctx.Phase("scale", func() {
			so := noFloatSpelling(scaleObjects())
			runMergeEdges(ctx, "C19", true, so, so, mergeCfg{})
			runCreatePairs(ctx, "C19", true, so, so)
			nb := neighbourObjects()
			runCreatePairs(ctx, "C19", true, nb, nb)
			runEqualPairs(ctx, "C19", true, nb, true)
			runSizeSweep(ctx, "C19", true, tier, sizeWhat{merge: true, create: true, equal: true, compose: true})
			runEqualPairs(ctx, "C19", true, so, true)
		})
	}, true)
}
