package main

import (
	"encoding/json"
	"fmt"
	"reflect"
	"sort"
	"strings"
	"sync/atomic"
	"time"

	"verif.local/h/core"
	"verif.local/h/impl"
	rj "verif.local/h/refjson"
)

// decodex: the DecodePatch accept/reject boundary (C11).

var opNames = map[string]bool{"add": true, "remove": true, "replace": true, "move": true, "copy": true, "test": true}

// lastWins returns the members of an object with duplicate names resolved as a
// Go map decode does; conflict reports duplicates with different values.
func lastWins(o *rj.Value) (m map[string]*rj.Value, conflict bool) {
	m = map[string]*rj.Value{}
	for _, mm := range o.O {
		if old, ok := m[mm.Name]; ok && !rj.EqualOrdered(old, mm.V) {
			conflict = true
		}
		m[mm.Name] = mm.V
	}
	return
}

// ValidPatch is the reference acceptance predicate, transcribed from C11.
func ValidPatch(v *rj.Value) bool {
	if v.K != rj.Arr {
		return false
	}
	for _, e := range v.A {
		if e.K != rj.Obj {
			return false
		}
		m, _ := lastWins(e)
		op, ok := m["op"]
		if !ok || op.K != rj.Str || !opNames[op.S] {
			return false
		}
		if p, ok := m["path"]; !ok || p.K != rj.Str {
			return false
		}
		switch op.S {
		case "add", "replace":
			if _, ok := m["value"]; !ok {
				return false
			}
		case "move", "copy":
			if f, ok := m["from"]; !ok || f.K != rj.Str {
				return false
			}
		}
	}
	return true
}

func patchConflict(v *rj.Value) bool {
	if v.K != rj.Arr {
		return false
	}
	for _, e := range v.A {
		if e.K == rj.Obj {
			if _, c := lastWins(e); c {
				return true
			}
		}
	}
	return false
}

// ifaceToValue converts what ValueInterface returns (nil, bool, string, a
// string-kinded number type, []interface{}, map[string]interface{}) to a tree.
func ifaceToValue(x interface{}) (*rj.Value, bool) {
	if x == nil {
		return rj.NewNull(), true
	}
	switch t := x.(type) {
	case bool:
		return rj.NewBool(t), true
	case string:
		return rj.NewStr(t), true
	case float64:
		return nil, false // numbers must come back as literals
	case []interface{}:
		a := rj.NewArr()
		for _, e := range t {
			v, ok := ifaceToValue(e)
			if !ok {
				return nil, false
			}
			a.A = append(a.A, v)
		}
		return a, true
	case map[string]interface{}:
		o := rj.NewObj()
		keys := make([]string, 0, len(t))
		for k := range t {
			keys = append(keys, k)
		}
		sort.Strings(keys)
		for _, k := range keys {
			v, ok := ifaceToValue(t[k])
			if !ok {
				return nil, false
			}
			o.O = append(o.O, rj.Member{Name: k, V: v})
		}
		return o, true
	}
	rv := reflect.ValueOf(x)
	if rv.Kind() == reflect.String {
		return rj.NewNum(rv.String()), true
	}
	return nil, false
}

type DecodeCase struct {
	Patch string `json:"patch_text"`
}

func judgeDecode(ctx *core.Ctx, w *core.Worker, text string) {
	viol := func(clause, key, detail string) {
		gt := fmt.Sprintf("// import jsonpatch \"github.com/evanphx/json-patch/v5\"\nfunc TestReplay(t *testing.T) {\n\tp, err := jsonpatch.DecodePatch([]byte(%q))\n\tt.Log(p, err)\n}\n", text)
		ctx.Violate(core.Violation{Property: "C11", Clause: clause, Key: "C11:" + key, Detail: detail, Engine: "decodex", Case: core.J(DecodeCase{text}), GoTest: gt})
	}
	w.Tick(func() string { return "DecodePatch " + text })
	atomic.AddInt64(&nExec, 1)
	d := impl.V5Decode([]byte(text))
	if d.Panic != "" {
		viol("panic", "panic:"+impl.PanicSite(d.Panic), fmt.Sprintf("DecodePatch(%s) or an accessor panics: %s", text, d.Panic))
		return
	}
	v, err := rj.Parse([]byte(text))
	if err != nil {
		ctx.Count("decode_ill_formed", 1)
		if d.Err == "" {
			viol("accepts-ill-formed", "accepts-ill-formed", fmt.Sprintf("DecodePatch(%q) accepted ill-formed JSON", text))
		} else if !d.NilOut {
			viol("patch-on-error", "patch-on-error", fmt.Sprintf("DecodePatch(%q) returned an error and a non-nil patch", text))
		}
		return
	}
	if v.K == rj.Null {
		ctx.Count("decode_dontcare_null_text", 1)
		return
	}
	if rj.HasDup(v) && patchConflict(v) {
		ctx.Count("decode_dontcare_conflicting_duplicates", 1)
		return
	}
	want := ValidPatch(v)
	if want {
		ctx.Count("decode_reference_accepts", 1)
	} else {
		ctx.Count("decode_reference_rejects", 1)
	}
	if want != (d.Err == "") {
		shape := "accepts-invalid"
		if want {
			shape = "rejects-valid"
		}
		viol("decode-boundary", "decode-boundary:"+shape, fmt.Sprintf("DecodePatch(%s): reference acceptance %v, library error %q", text, want, d.Err))
		return
	}
	if !want {
		if !d.NilOut {
			viol("patch-on-error", "patch-on-error", fmt.Sprintf("DecodePatch(%s) returned an error and a non-nil patch", text))
		}
		return
	}
	// accessors return the decoded members, in order
	if len(d.Ops) != len(v.A) {
		viol("accessors", "accessors:length", fmt.Sprintf("DecodePatch(%s): %d operations, expected %d", text, len(d.Ops), len(v.A)))
		return
	}
	for i, e := range v.A {
		m, _ := lastWins(e)
		o := d.Ops[i]
		if o.Kind != m["op"].S {
			viol("accessors", "accessors:Kind", fmt.Sprintf("op %d of %s: Kind()=%q", i, text, o.Kind))
		}
		if o.PathErr != "" || o.Path != m["path"].S {
			viol("accessors", "accessors:Path", fmt.Sprintf("op %d of %s: Path()=%q,%q", i, text, o.Path, o.PathErr))
		}
		if f, ok := m["from"]; ok && f.K == rj.Str {
			if o.FromErr != "" || o.From != f.S {
				viol("accessors", "accessors:From", fmt.Sprintf("op %d of %s: From()=%q,%q", i, text, o.From, o.FromErr))
			}
		}
		if val, ok := m["value"]; ok {
			got, okc := ifaceToValue(o.Value)
			if o.ValueErr != "" || !okc || !rj.Equal(got, val) {
				viol("accessors", "accessors:ValueInterface", fmt.Sprintf("op %d of %s: ValueInterface()=%#v,%q", i, text, o.Value, o.ValueErr))
			}
		}
		ctx.Count("decode_accessor_checks", 1)
	}
}

type slot struct{ name, val string } // val "" = absent

// slotMenu: the states a member slot can be mutated into.
func slotMenu(name string) []slot {
	vals := []string{``, `null`, `0`, `true`, `"str"`, `[]`, `{}`}
	out := []slot{}
	for _, v := range vals {
		out = append(out, slot{fmt.Sprintf("%q", name), v})
	}
	switch name {
	case "op":
		for _, v := range []string{`"bogus"`, `"Add"`, `"REMOVE"`, `"add"`, `"test"`, `"copy"`, `"remove"`, `""`} {
			out = append(out, slot{`"op"`, v})
		}
		out = append(out, slot{`"Op"`, `"add"`}, slot{`"OP"`, `"add"`}, slot{`"op"`, `"add"`})
	case "path":
		out = append(out, slot{`"path"`, `"/a"`}, slot{`"path"`, `""`}, slot{`"Path"`, `"/a"`}, slot{`"PATH"`, `"/a"`}, slot{`"path"`, `"/a"`})
	case "from":
		out = append(out, slot{`"from"`, `"/b"`}, slot{`"From"`, `"/b"`}, slot{`"FROM"`, `"/b"`})
	case "value":
		out = append(out, slot{`"value"`, `1`}, slot{`"Value"`, `1`}, slot{`"VALUE"`, `1`})
	case "x":
		out = append(out, slot{`"x"`, `1`})
	}
	return out
}

var slotNames = []string{"op", "path", "from", "value", "x"}

func baseOp(kind string) []slot {
	b := []slot{{`"op"`, fmt.Sprintf("%q", kind)}, {`"path"`, `"/a"`}, {`"from"`, ``}, {`"value"`, ``}, {`"x"`, ``}}
	switch kind {
	case "add", "replace", "test":
		b[3].val = `1`
	case "move", "copy":
		b[2].val = `"/b"`
	}
	return b
}

func opText(sl []slot, dup int) string {
	var parts []string
	for i, s := range sl {
		if s.val == "" {
			continue
		}
		parts = append(parts, s.name+":"+s.val)
		if dup == i {
			parts = append(parts, s.name+":"+s.val)
		}
	}
	return "{" + strings.Join(parts, ",") + "}"
}

func runDecodex(ctx *core.Ctx, tier string) {
	kinds := []string{"add", "remove", "replace", "move", "copy", "test"}
	texts := map[string]bool{}
	add := func(op string) {
		good := `{"op":"remove","path":"/z"}`
		for _, t := range []string{"[" + op + "]", "[" + op + "," + good + "]", "[" + good + "," + op + "]"} {
			texts[t] = true
		}
	}
	for _, k := range kinds {
		base := baseOp(k)
		add(opText(base, -1))
		// JSON whitespace (all four kinds) around and inside an accepted patch; other blanks must be rejected
		bt := opText(base, -1)
		for _, ws := range []string{" ", "\t", "\n", "\r", "\r\n \t"} {
			texts[ws+"["+bt+"]"] = true
			texts["["+bt+"]"+ws] = true
			texts["["+ws+bt+ws+"]"] = true
		}
		// every way to spell the string members: the value is what counts
		for _, sp := range [][2]string{{`"/a"`, `"\/a"`}, {`"/a"`, `"\u002fa"`}, {`"/a"`, `"/\u0061"`}, {`"/a"`, `"/\ud83d\ude00"`}, {`"/a"`, `"/\ud800"`}, {`"/a"`, `"/\u00e9\t"`},
			{`"` + k + `"`, `"\u00` + fmt.Sprintf("%02x", k[0]) + k[1:] + `"`}} {
			texts["["+strings.Replace(bt, sp[0], sp[1], -1)+"]"] = true
		}
		for _, ws := range []string{"\f", "\v", "\xc2\xa0", "\x00", "\xef\xbb\xbf", "\xfe\xff", "\xff\xfe", "\xe2\x80\x8b", "\xe2\x80\xa8"} {
			texts[ws+"["+bt+"]"] = true
			texts["["+bt+"]"+ws] = true
		}
		for i := range slotNames {
			add(opText(base, i)) // identical duplicate
			for _, si := range slotMenu(slotNames[i]) {
				m1 := append([]slot(nil), base...)
				m1[i] = si
				add(opText(m1, -1))
				for j := i + 1; j < len(slotNames); j++ {
					for _, sj := range slotMenu(slotNames[j]) {
						m2 := append([]slot(nil), m1...)
						m2[j] = sj
						add(opText(m2, -1))
						if tier == "thorough" {
							for l := j + 1; l < len(slotNames); l++ {
								for _, sl := range slotMenu(slotNames[l]) {
									m3 := append([]slot(nil), m2...)
									m3[l] = sl
									texts["["+opText(m3, -1)+"]"] = true
								}
							}
						}
					}
				}
			}
		}
		// conflicting duplicate (DontCare, must not panic)
		texts[`[{"op":"`+k+`","op":"bogus","path":"/a","from":"/b","value":1}]`] = true
	}
	for _, e := range []string{`null`, `0`, `"add"`, `[]`, `[[]]`, `true`, `{}`} {
		good := `{"op":"remove","path":"/z"}`
		texts["["+e+"]"] = true
		texts["["+good+","+e+"]"] = true
	}
	for _, r := range []string{`{}`, `"x"`, `0`, `true`, `{"op":"add","path":"/a","value":1}`, `[]`, ` [ ] `, ``, `[`, `[{"op":"add","path":"/a","value":1}`, `[{"op":"add","path":"/a","value":1}]x`} {
		texts[r] = true
	}
	// SCALE: patches of 300 operations with one mutated operation at a chosen position; long path / from /
	// value strings; operation objects with 40 unknown extra members
	goodOp := func(i int) string { return fmt.Sprintf(`{"op":"add","path":"/m%03d","value":%d}`, i, i) }
	for _, bad := range []string{`{"op":"add","path":"/x"}`, `{"op":"bogus","path":"/x"}`, `{"op":"move","path":"/x","from":null}`, `{"op":"test","path":7,"value":1}`, `7`, goodOp(999)} {
		for _, pos := range []int{0, 1, 255, 256, 299} {
			parts := make([]string, 300)
			for i := range parts {
				parts[i] = goodOp(i)
			}
			parts[pos] = bad
			texts["["+strings.Join(parts, ",")+"]"] = true
		}
	}
	for _, n := range []int{63, 64, 65, 1023, 1024, 4095, 4096, 4097} {
		long := strings.Repeat("p~1q~0", n/6+1)[:n]
		for len(long) > 0 && long[len(long)-1] == '~' {
			long = long[:len(long)-1]
		}
		texts[`[{"op":"add","path":"/`+long+`","value":"`+long+`"}]`] = true
		texts[`[{"op":"move","from":"/`+long+`","path":"/`+long+`x"}]`] = true
		texts[`[{"op":"copy","from":"/`+long+`"}]`] = true
		texts[`[{"op":"replace","path":"/a","value":[`+strings.Repeat("1,", n)+`1]}]`] = true
	}
	// operation-count sweep: every count 0..40 and the neighbourhood of 64 .. 1024; a defective operation as
	// the first, the middle and each of the last four elements
	for _, n := range sweepSizes(40, 64, 128, 256, 300, 512, 1024) {
		parts := make([]string, n)
		for i := range parts {
			parts[i] = goodOp(i)
		}
		texts["["+strings.Join(parts, ",")+"]"] = true
		for _, bad := range []string{`{"op":"remove"}`, `{"op":"bogus","path":"/x"}`, `{"op":"copy","path":"/x"}`, `null`} {
			for _, pos := range []int{0, n / 2, n - 4, n - 3, n - 2, n - 1} {
				if pos < 0 || pos >= n {
					continue
				}
				keep := parts[pos]
				parts[pos] = bad
				texts["["+strings.Join(parts, ",")+"]"] = true
				parts[pos] = keep
			}
		}
	}
	// input-size sweep: the same few operations in texts padded with blanks to sizes around 4 KiB, 64 KiB and
	// 1 MiB (padding in front, between the operations, behind); the accessors must still answer per operation
	for _, size := range []int{4095, 4096, 4097, 65535, 65536, 65537, 1<<20 - 1, 1 << 20, 1<<20 + 1} {
		for _, ops := range [][]string{
			{`{"op":"add","path":"/a","value":{"v":1}}`, `{"op":"remove","path":"/b"}`, `{"op":"copy","from":"/c","path":"/d"}`},
			{`{"op":"add","path":"/a","value":1}`, `{"op":"replace","path":"/a"}`},
			{`{"op":"copy","from":"/c","path":"/d"}`, `{"op":"move","path":"/e"}`},
		} {
			body := strings.Join(ops, ",")
			pad := strings.Repeat(" ", size-len(body)-2)
			texts[pad+"["+body+"]"] = true
			texts["["+body+"]"+pad] = true
			texts["["+ops[0]+","+pad+strings.Join(ops[1:], ",")+"]"] = true
		}
	}
	var extras strings.Builder
	for i := 0; i < 40; i++ {
		fmt.Fprintf(&extras, `"x%02d":{"op":"bogus"},`, i)
	}
	texts[`[{`+extras.String()+`"op":"remove","path":"/z"}]`] = true
	texts[`[{`+extras.String()+`"op":"remove"}]`] = true
	list := make([]string, 0, len(texts))
	for t := range texts {
		list = append(list, t)
	}
	sort.Strings(list)
	ctx.Parallel(len(list), func(w *core.Worker, i int) {
		judgeDecode(ctx, w, list[i])
		ctx.AddState(list[i])
		if i%(len(list)/6+1) == 0 {
			ctx.Sample(list[i], 8)
		}
	})
	ctx.Count("patch_texts", int64(len(list)))
	// every short byte string, too
	n := 4
	if tier == "thorough" {
		n = 5
	}
	cnt := allStrings(ctx, Gamma16, n, func(w *core.Worker, s []byte) { judgeDecode(ctx, w, string(s)) })
	ctx.Count("short_strings", cnt)
}

func init() {
	checks["C11"] = &check{Engine: "decodex",
		Run: func(ctx *core.Ctx, tier string) {
			ctx.Rep.Rule = "patch texts built from one valid operation per kind by ALL single and ALL pairs (thorough: triples) of member mutations " +
				"(delete; retype to null/0/true/\"str\"/[]/{}; unknown, wrong-case and \\u-escaped op names; member names renamed by case or \\u-escaped; identical duplicates), alone / first / last beside a valid neighbour; " +
				"element-type and root-type changes; patches of every length 0..40 and around 64 .. 1024 operations with a defective operation first, in the middle and in each of the last four places; texts padded to 4 KiB / 64 KiB / 1 MiB (+-1); pointers and values of 63 .. 4097 bytes; plus every string over the 16-symbol alphabet up to length 4 (thorough 5). Each judged by a reference acceptance predicate transcribed from the statement; accepted patches have Kind/Path/From/ValueInterface compared with the reference-decoded members. " +
				"states = distinct patch texts; non-trivial = texts that are well-formed JSON"
			runDecodex(ctx, tier)
			ctx.Rep.Validated = atomic.LoadInt64(&nExec)
			ctx.Rep.Evals, ctx.Rep.Trans = ctx.Rep.Validated, ctx.Rep.Validated
			ctx.Rep.Nontrivial = atomic.LoadInt64(ctx.Counter("decode_reference_accepts")) + atomic.LoadInt64(ctx.Counter("decode_reference_rejects"))
		},
		Replay: func(ctx *core.Ctx, raw json.RawMessage) {
			var c DecodeCase
			json.Unmarshal(raw, &c)
			judgeDecode(ctx, nil, c.Patch)
		},
		Budget: map[string]time.Duration{"quick": 100 * time.Second, "thorough": 20 * time.Minute}}
}
