//go:build shim

package main

import (
	"bytes"
	"encoding/json"
	"fmt"
	"os"
	"strings"
	"time"

	v4 "github.com/evanphx/json-patch"
	v5 "github.com/evanphx/json-patch/v5"
	zj "github.com/evanphx/json-patch/v5/zzverifjson"
	zs "github.com/evanphx/json-patch/v5/zzvsync"

	"verif.local/h/core"
)

// E5 histx: explicit-state search over call histories. State = everything the
// library keeps between calls (every package-level variable of the three library
// packages, which includes the shimmed pools with every private field of the
// recycled decodeState / encodeState / scanner objects and the type caches).
// Transition = one call of the menu, with every Pool.Get answer an explorer-owned
// choice (default: the most recently pooled object; deviations: any other pooled
// object, or a fresh one). Successor = reset to the fresh-process state, replay
// the shortest known path, one more call. Oracle per transition: the call's
// outcome equals its solo outcome in the fresh-process state, and no shared
// input buffer or Patch changed.

type HistStep struct {
	Call    int    `json:"call"`
	Name    string `json:"name"`
	Choices []int  `json:"pool_answers"` // one entry per Pool.Get that had >1 possible answer
}

type HistCase struct {
	Path    []HistStep `json:"history"`
	Outcome string     `json:"outcome,omitempty"`
	Solo    string     `json:"solo_outcome,omitempty"`
}

func globalsDump() string {
	return dumpAll(v5.ZZVerifGlobals(), zj.JSONGlobals(), v4.ZZVerifGlobals())
}

// runStep executes one call with the given pool answers; returns outcome and the recorded trace.
func histRunStep(w *apiWorld, ctl *seqCtl, call int, prefix []int) (string, *chooser) {
	c := &chooser{prefix: prefix}
	ctl.c = c
	out := w.outcome(call)
	ctl.c = nil
	return out, c
}

func histReplay(w *apiWorld, ctl *seqCtl, path []HistStep) (string, *chooser) {
	coldReset()
	var out string
	var c *chooser
	for _, st := range path {
		out, c = histRunStep(w, ctl, st.Call, st.Choices)
	}
	return out, c
}

// keptModified: which results returned by EARLIER calls of the current history
// no longer hold the bytes they held when they were returned.
func keptModified(kept []keptResult, upto int) []string {
	var bad []string
	for i := 0; i < upto && i < len(kept); i++ {
		if k := kept[i]; k.err != nil {
			if now := k.err.Error(); now != k.etxt {
				bad = append(bad, fmt.Sprintf("the error returned earlier by %s read %q when it was returned and reads %q now (an error value must not point into state that later calls reuse)", k.call, clip(k.etxt, 200), clip(now, 200)))
			}
		} else if string(k.raw) != k.snap {
			bad = append(bad, fmt.Sprintf("the result returned earlier by %s was %q and now reads %q", k.call, clip(k.snap, 120), clip(string(k.raw), 120)))
		}
	}
	return bad
}

func init() {
	checks["C09"] = &check{Engine: "histx", Shards: 16,
		Run:    runHistx,
		Replay: histReplayCase,
		Budget: map[string]time.Duration{"quick": 100 * time.Second, "thorough": 25 * time.Minute}}
}

func runHistx(ctx *core.Ctx, tier string) {
	// passes: (history depth, deviation budget)
	passes := [][2]int{{3, 0}, {2, 1}}
	if tier == "thorough" {
		passes = [][2]int{{4, 0}, {3, 1}, {2, 2}}
	}
	shard, nshards := shardInfo()
	var rules []string
	var trans, nontriv int64
	if shard == 0 {
		for _, b := range decodeBufferReuse() {
			ctx.Violate(core.Violation{Property: "C09", Clause: "decoded-patch-aliases-buffer", Key: "C09:decoded-patch-aliases-buffer", Engine: "histx", Detail: b,
				Case: core.J(map[string]string{"clause": "decode-buffer-reuse"})})
		}
		ctx.Count("decode_buffer_reuse_histories", 8)
	}
	for _, p := range passes {
		histShard(ctx, tier, p[0], p[1], shard, nshards)
		rules = append(rules, ctx.Rep.Rule)
		trans += ctx.Rep.Trans
		nontriv += ctx.Rep.Nontrivial
	}
	if len(passes) > 1 {
		ctx.Rep.Rule = strings.Join(rules, " || SECOND PASS: ")
	}
	ctx.Rep.Trans, ctx.Rep.Validated, ctx.Rep.Evals, ctx.Rep.Nontrivial = trans, trans, trans, nontriv
	ctx.Rep.Extra["passes_depth_deviations"] = passes
	ctx.Rep.Extra["closure_reached"] = false // stays false: recycled objects remember their last input, states keep multiplying (24 k new at level 3, 290 k at level 4 even with default pool answers)
}

func shardInfo() (int, int) {
	var i, n int
	if _, err := fmt.Sscanf(os.Getenv("VERIF_SHARD"), "%d/%d", &i, &n); err == nil && n > 0 {
		return i, n
	}
	return 0, 1
}

type histNode struct {
	path []HistStep
	devs int
}

func histShard(ctx *core.Ctx, tier string, maxDepth, bound, shard, nshards int) {
	w := newAPIWorld()
	ctl := &seqCtl{}
	zs.SetController(ctl)
	zs.OwnMapOrder = true // every owned map iteration order is a choice (rotation of the sorted order)
	// solo outcomes in the fresh-process state
	w.solo = w.soloOutcomes()
	// residual state: what a call leaves behind that emptying the pools and caches does not remove
	// (reported, not judged: the per-transition oracle decides whether it matters)
	if shard == 0 {
		coldReset()
		prev := globalsDump()
		var residual []string
		for _, i := range w.menu {
			w.outcome(i)
			coldReset()
			d := globalsDump()
			if d != prev {
				a, b := strings.Split(prev, "\n"), strings.Split(d, "\n")
				for k := range a {
					if k < len(b) && a[k] != b[k] {
						name := a[k]
						if j := strings.Index(name, "="); j > 0 {
							name = name[:j]
						}
						residual = append(residual, w.calls[i].Name+" -> variable "+name+" (group 0=v5 1=codec 2=legacy)")
						break
					}
				}
			}
			prev = d
		}
		ctx.Rep.Extra["state_left_outside_pools_and_caches"] = residual
	}
	if bad := w.inputsIntact(); len(bad) > 0 {
		for _, b := range bad {
			ctx.Violate(core.Violation{Property: "C09", Clause: "input-modified", Key: "C09:input-modified:solo", Detail: b, Engine: "histx", Case: core.J(HistCase{})})
		}
	}
	// determinism: the same call twice from the fresh state gives the same fingerprint
	coldReset()
	w.outcome(0)
	f1 := globalsDump()
	coldReset()
	w.outcome(0)
	if f2 := globalsDump(); f1 != f2 {
		fmt.Fprintln(os.Stderr, "histx: state fingerprint is not deterministic; dedup disabled for this run")
		ctx.Cap("state fingerprint not deterministic: dedup disabled (plain depth-bounded enumeration)")
	}
	coldReset()
	ctx.AddState(globalsDump())
	trans := new(int64)
	ctx.Rep.Rule = fmt.Sprintf("BFS over call histories: menu of %d calls over ONE shared set of decoded Patch values and input buffers (Apply on object/array documents, ApplyIndent, copy limit hit, EscapeHTML off, failing test, malformed document, scalar root, inapplicable patch, DecodePatch ok/malformed/invalid/non-array, MergePatch x4 incl. malformed, MergeMergePatches, CreateMergePatch x4 incl. rejected/malformed, Equal x3 incl. malformed, legacy Apply and MergePatch); "+
		"every Pool.Get answer is a choice (default LIFO; deviations: any other pooled object or a fresh one) and so is the order of every map iteration in the library packages (default sorted; deviations: its rotations), at most %d deviation(s) per history; state (computed for every history shorter than the depth bound) = generic dump of every package-level variable of the three library packages (pools with all private fields of recycled objects, type caches); dedup on the dump, successor = reset + replay shortest path + one call; depth <= %d or closure. "+
		"Oracle per transition: outcome == the outcome of the same call made alone in a brand-new process (error text / exact bytes for Apply, ApplyIndent, CreateMergePatch, Equal / JSON value otherwise); every shared buffer and Patch identical to its snapshot; every byte slice returned by an earlier call of the history still holds the bytes it was returned with; and (histories of 2 calls) a caller overwriting the bytes it was handed does not change what the next call returns. non-trivial = transitions whose history has >= 2 calls", len(w.menu), bound, maxDepth)
	ctx.Rep.Assume = append(ctx.Rep.Assume,
		"state dump omits slice capacity and elements beyond len (see DESIGN.md E5); equal dumps are taken to have equal futures",
		"the library's only process-wide mutable state is in package-level variables of its own packages (checked by the generated accessor, which lists every one) and in the shimmed pools/caches; standard-library internals (reflect, strconv caches) are trusted to be result-neutral",
		"only exported functions of the two packages are in the menu (the codec is internal)")
	frontier := []histNode{{}}
	closure := false
	var nontrivial int64
	depthDone := 0
	for depth := 1; depth <= maxDepth && len(frontier) > 0; depth++ {
		var next []histNode
		for ni, node := range frontier {
			if depth == 1 && nshards > 1 {
				// shard on the first call
			}
			for mi, ci := range w.menu {
				if depth == 1 && mi%nshards != shard {
					continue
				}
				if ctx.Expired() {
					ctx.Cap(fmt.Sprintf("internal deadline reached at depth %d (node %d of %d); depths < %d fully covered", depth, ni, len(frontier), depth))
					goto out
				}
				// enumerate pool answers inside this call, within the remaining budget
				run := func(prefix []int) *chooser {
					var kept []keptResult
					w.keep = &kept
					histReplay(w, ctl, node.path)
					nEarlier := len(kept)
					out, c := histRunStep(w, ctl, ci, prefix)
					w.keep = nil
					*trans++
					if depth >= 2 {
						nontrivial++
					}
					step := HistStep{Call: ci, Name: w.calls[ci].Name, Choices: c.choices()}
					path := append(append([]HistStep(nil), node.path...), step)
					if out != w.solo[ci] {
						key := "history-changes-outcome:" + w.calls[ci].Name
						ctx.Violate(core.Violation{Property: "C09", Clause: "history-changes-outcome", Key: "C09:" + key, Engine: "histx",
							Detail: fmt.Sprintf("after history %s the call %s returns %q; alone it returns %q", histText(node.path), w.calls[ci].Name, clip(out, 300), clip(w.solo[ci], 300)),
							Case:   core.J(HistCase{Path: path, Outcome: out, Solo: w.solo[ci]})})
					}
					for _, b := range w.inputsIntact() {
						ctx.Violate(core.Violation{Property: "C09", Clause: "input-modified", Key: "C09:input-modified:" + w.calls[ci].Name, Engine: "histx",
							Detail: b + " (history " + histText(path) + ")", Case: core.J(HistCase{Path: path})})
					}
					for _, b := range keptModified(kept, nEarlier) {
						ctx.Violate(core.Violation{Property: "C09", Clause: "earlier-result-modified", Key: "C09:earlier-result-modified:" + w.calls[ci].Name, Engine: "histx",
							Detail: b + " after the call " + w.calls[ci].Name + " (history " + histText(path) + "): a result must not alias state that later calls write", Case: core.J(HistCase{Path: path})})
					}
					// results belong to the caller: with every earlier result overwritten by the caller, the call
					// must still give its solo outcome (default pool answers; histories of length 2)
					if depth == 2 && len(prefix) == 0 {
						w.scribble = true
						histReplay(w, ctl, node.path)
						w.scribble = false
						out2, _ := histRunStep(w, ctl, ci, nil)
						*trans++
						if out2 != w.solo[ci] {
							ctx.Violate(core.Violation{Property: "C09", Clause: "caller-write-to-result-changes-later-call", Key: "C09:caller-write-to-result-changes-later-call:" + w.calls[ci].Name, Engine: "histx",
								Detail: fmt.Sprintf("after %s, whose returned bytes the caller then overwrote, the call %s returns %q; alone it returns %q", histText(node.path), w.calls[ci].Name, clip(out2, 200), clip(w.solo[ci], 200)),
								Case:   core.J(HistCase{Path: path, Outcome: out2, Solo: w.solo[ci]})})
						}
						w.inputsIntact()
					}
					d := deviations(c.trace, len(c.trace))
					// at the last level nothing is expanded further: the fingerprint is not needed
					if depth < maxDepth && ctx.AddState(globalsDump()) {
						next = append(next, histNode{path: path, devs: node.devs + d})
						if len(path) <= 2 {
							ctx.Sample(map[string]interface{}{"history": histText(path), "outcome": clip(out, 160)}, 5)
						}
					}
					return c
				}
				exploreDFS(bound-node.devs, run, func(*chooser) {}, nil)
			}
		}
		depthDone = depth
		ctx.Count(fmt.Sprintf("new_states_at_depth_%d", depth), int64(len(next)))
		frontier = next
		if len(next) == 0 && depth < maxDepth {
			closure = true // no unseen state at a level whose states were all fingerprinted: every longer history repeats a shorter one
		}
	}
out:
	ctx.Rep.Trans = *trans
	ctx.Rep.Validated = *trans
	ctx.Rep.Evals = *trans
	ctx.Rep.Nontrivial = nontrivial
	ctx.Rep.Extra["closure_reached"] = closure
	ctx.Rep.Extra["depth_completed"] = depthDone
	ctx.Rep.Extra["deviation_bound"] = bound
	ctx.Rep.Extra["menu"] = callNames(w)
	if !closure {
		ctx.Rep.Extra["frontier_left"] = len(frontier)
	}
}

func callNames(w *apiWorld) []string {
	var out []string
	for _, i := range w.menu {
		out = append(out, w.calls[i].Name)
	}
	return out
}

func histText(p []HistStep) string {
	var parts []string
	for _, s := range p {
		t := s.Name
		dev := false
		for _, c := range s.Choices {
			if c != 0 {
				dev = true
			}
		}
		if dev {
			t += fmt.Sprintf(" pool=%v", s.Choices)
		}
		parts = append(parts, t)
	}
	if len(parts) == 0 {
		return "(empty)"
	}
	return strings.Join(parts, " ; ")
}

func clip(s string, n int) string {
	if len(s) > n {
		return s[:n] + "..."
	}
	return s
}

func histReplayCase(ctx *core.Ctx, raw json.RawMessage) {
	if bytes.Contains(raw, []byte("decode-buffer-reuse")) {
		for _, b := range decodeBufferReuse() {
			ctx.Violate(core.Violation{Property: "C09", Clause: "decoded-patch-aliases-buffer", Key: "C09:decoded-patch-aliases-buffer", Engine: "histx", Detail: b, Case: raw})
		}
		return
	}
	var hc HistCase
	if err := json.Unmarshal(raw, &hc); err != nil {
		panic(err)
	}
	w := newAPIWorld()
	ctl := &seqCtl{}
	zs.SetController(ctl)
	w.solo = w.soloOutcomes()
	if len(hc.Path) == 0 {
		return
	}
	var kept []keptResult
	w.keep = &kept
	histReplay(w, ctl, hc.Path[:len(hc.Path)-1])
	nEarlier := len(kept)
	lastStep := hc.Path[len(hc.Path)-1]
	out, c := histRunStep(w, ctl, lastStep.Call, lastStep.Choices)
	w.keep = nil
	for _, b := range keptModified(kept, nEarlier) {
		ctx.Violate(core.Violation{Property: "C09", Clause: "earlier-result-modified", Key: "C09:earlier-result-modified:" + lastStep.Name, Engine: "histx", Detail: b, Case: raw})
	}
	last := hc.Path[len(hc.Path)-1]
	if c != nil && c.err != "" {
		fmt.Fprintln(os.Stderr, "replay:", c.err)
	}
	if out != w.solo[last.Call] {
		ctx.Violate(core.Violation{Property: "C09", Clause: "history-changes-outcome", Key: "C09:history-changes-outcome:" + last.Name, Engine: "histx",
			Detail: fmt.Sprintf("after the recorded history the call returns %q; alone %q", clip(out, 300), clip(w.solo[last.Call], 300)), Case: raw})
	}
	for _, b := range w.inputsIntact() {
		ctx.Violate(core.Violation{Property: "C09", Clause: "input-modified", Key: "C09:input-modified:" + last.Name, Engine: "histx", Detail: b, Case: raw})
	}
}
