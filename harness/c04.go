package main

import (
	"encoding/json"
	"fmt"
	"strings"
	"sync/atomic"
	"time"

	"verif.local/h/core"
	"verif.local/h/impl"
	r69 "verif.local/h/ref6902"
	rj "verif.local/h/refjson"
)

// C04 — no panic, no hang. Every other check already reports panics on cases
// inside its own domain; this one enumerates what the others exclude.

// outOfDomainOps: one symbol per exclusion named in the statements.
func outOfDomainOps(d *rj.Value, tier string) []r69.Op {
	one := rj.MustParse(`1`)
	var ops []r69.Op
	// an existing member / element to combine with awkward tokens
	first := "/zz"
	if d.K == rj.Obj && len(d.O) > 0 {
		first = "/" + r69.EncodeToken(d.O[0].Name)
	} else if d.K == rj.Arr && len(d.A) > 0 {
		first = "/0"
	}
	paths := []string{"/", "//", first + "/", "a", "/~", "/~2", first + "/+1", first + "/01", first + "/-0",
		"/-9223372036854775808", "/99999999999999999999", first + "/9223372036854775807", "/-/-", "/-1/-1"}
	// paths that walk THROUGH a location (which an earlier operation may have turned into null, a scalar or a
	// container of the other kind) with an index / '-' / name token and go on below it
	paths = append(paths, first+"/0/x", first+"/-/x", first+"/zz/y", first+"/0/0", first+"/1/x/y", "/zz/0/x", "/zz/-/x")
	if tier == "thorough" {
		paths = append(paths, first+"//x", "~", "/a~", "/+0", "/00", "/9223372036854775807", "/-99999999999999999999",
			first+"/-9223372036854775808", "/1e2", "/0x1", "/ 1", first+"/-")
	}
	for _, p := range paths {
		ops = append(ops,
			r69.Op{Kind: "add", Path: p, Value: one, HasValue: true},
			r69.Op{Kind: "remove", Path: p},
			r69.Op{Kind: "replace", Path: p, Value: one, HasValue: true},
			r69.Op{Kind: "test", Path: p, Value: one, HasValue: true},
			r69.Op{Kind: "test", Path: p}, // no value
			r69.Op{Kind: "move", From: p, Path: "/m"},
			r69.Op{Kind: "move", From: first, Path: p},
			r69.Op{Kind: "copy", From: p, Path: "/c"},
			r69.Op{Kind: "copy", From: first, Path: p},
		)
	}
	// "" as destination / target; root replaced by null or a scalar; test without value
	for _, v := range []string{`null`, `1`, `"s"`, `true`, `[null]`, `{"k":null}`, `[]`, `{}`} {
		val := rj.MustParse(v)
		ops = append(ops, r69.Op{Kind: "add", Path: "", Value: val, HasValue: true}, r69.Op{Kind: "replace", Path: "", Value: val, HasValue: true},
			r69.Op{Kind: "test", Path: "", Value: val, HasValue: true})
	}
	ops = append(ops, r69.Op{Kind: "remove", Path: ""}, r69.Op{Kind: "move", From: first, Path: ""}, r69.Op{Kind: "copy", From: first, Path: ""},
		r69.Op{Kind: "copy", From: "", Path: ""}, r69.Op{Kind: "move", From: "", Path: ""}, r69.Op{Kind: "test", Path: ""}, r69.Op{Kind: "test", Path: first},
		r69.Op{Kind: "test", Path: "/zz"}, r69.Op{Kind: "copy", From: "", Path: first}, r69.Op{Kind: "copy", From: "", Path: "/-"})
	return ops
}

func runC04Seq(ctx *core.Ctx, legacy bool, tier string) {
	p := &seqProp{ID: "C04", Legacy: legacy, Judge: func(*seqRun) {}}
	docs := []string{Dq[1], Dq[2], `{"":{"":1},"a":[[]]}`, `{}`, `[null]`, `{"a":1,"a":2,"b":{"k":1,"k":[2]}}`}
	if tier == "thorough" {
		docs = append(docs, Dq[0], `[]`, `{"a":null}`)
	}
	var opts []r69.Options
	lims := []int64{0, 1, 1000000}
	if legacy {
		for i, neg := range []bool{true, false} {
			for li, l := range lims {
				if tier != "thorough" && li != i {
					continue
				}
				opts = append(opts, r69.Options{Neg: neg, Limit: l, EscapeHTML: true})
			}
		}
	} else {
		for mask := 0; mask < 16; mask++ {
			for li, l := range lims {
				if tier != "thorough" && li != mask%3 {
					continue
				}
				opts = append(opts, r69.Options{Neg: mask&1 != 0, AllowMissing: mask&2 != 0, Ensure: mask&4 != 0, EscapeHTML: mask&8 != 0, Limit: l})
			}
		}
	}
	small := &AlphaCfg{Values: v2, ReplValues: v1n, Kinds: kinds("add", "remove", "replace", "test")}
	if tier == "thorough" {
		small = &AlphaCfg{Values: v2, ReplValues: v1n}
	}
	nseq := ctx.Counter("c04_sequences")
	npanic := ctx.Counter("c04_panics")
	for _, opt := range opts {
		type unit struct {
			d    *rj.Value
			dt   string
			op   r69.Op
			ood  bool
			ood2 []r69.Op
			reg2 []r69.Op
		}
		var units []unit
		for _, dt := range docs {
			d := rj.MustParse(dt)
			ood := outOfDomainOps(d, tier)
			reg := Sigma(d, small)
			for _, o := range ood {
				units = append(units, unit{d, dt, o, true, ood, reg})
			}
			for _, o := range reg {
				units = append(units, unit{d, dt, o, false, ood, nil})
			}
		}
		impl.SetGlobals(legacy, false, opt)
		ctx.Parallel(len(units), func(w *core.Worker, i int) {
			u := units[i]
			run := func(ops []r69.Op, indent string) {
				if opt.Ensure && hasHugeIndex(ops) {
					return // indices above 10^4 under EnsurePathExistsOnAdd: outside the stated domain (quadratic padding)
				}
				r := &seqRun{p: p, ctx: ctx, w: w, doc: u.d, dtxt: u.dt, ops: ops, opt: opt}
				o := r.exec(indent)
				atomic.AddInt64(nseq, 1)
				if o.Panic != "" {
					atomic.AddInt64(npanic, 1)
					r.viol("panic", "panic:"+impl.PanicSite(o.Panic), "library panicked: "+o.Panic)
				}
			}
			run([]r69.Op{u.op}, "")
			run([]r69.Op{u.op}, " ")
			run([]r69.Op{u.op}, "\t")
			for _, o2 := range u.ood2 {
				run([]r69.Op{u.op, o2}, "")
			}
			for _, o2 := range u.reg2 {
				run([]r69.Op{u.op, o2}, "")
			}
		})
	}
	ctx.Count("c04_option_combinations", int64(len(opts)))
}

// runEnsureBig: EnsurePathExistsOnAdd with indices up to 10^4 must return.
func runEnsureBig(ctx *core.Ctx) {
	p := &seqProp{ID: "C04", Judge: func(*seqRun) {}}
	val := rj.MustParse(`1`)
	paths := []string{"/a/10000", "/a/9999/b", "/10000", "/a/100/100/100", "/a/-/10000", "/0/0/0/0/0/0/0/0"}
	docs := []string{`{}`, `[]`, `{"a":[[]]}`}
	type unit struct{ d, p string }
	var units []unit
	for _, d := range docs {
		for _, pp := range paths {
			units = append(units, unit{d, pp})
		}
	}
	ctx.Parallel(len(units), func(w *core.Worker, i int) {
		u := units[i]
		for _, neg := range []bool{true, false} {
			r := &seqRun{p: p, ctx: ctx, w: w, doc: rj.MustParse(u.d), dtxt: u.d, ops: []r69.Op{{Kind: "add", Path: u.p, Value: val, HasValue: true}, {Kind: "add", Path: u.p, Value: val, HasValue: true}},
				opt: r69.Options{Neg: neg, Ensure: true, EscapeHTML: true}}
			o := r.exec("")
			ctx.Count("c04_ensure_big_index_runs", 1)
			if o.Panic != "" {
				r.viol("panic", "panic:"+impl.PanicSite(o.Panic), "library panicked: "+o.Panic)
			}
		}
	})
}

// runCombinedNesting: documents whose nesting only exceeds the codec's limit (10000) AFTER an operation
// has put a deep value into a deep document - the library then holds a document it cannot re-read.
func runCombinedNesting(ctx *core.Ctx) {
	p := &seqProp{ID: "C04", Judge: func(*seqRun) {}}
	const n = 5100 // 2n > 10000; each call walks n tokens over nested text (quadratic): about a second
	type shape struct{ doc, val, bottom string }
	arrDoc := strings.Repeat("[", n) + strings.Repeat("]", n)
	objDoc := strings.Repeat(`{"a":`, n-1) + "{}" + strings.Repeat("}", n-1)
	shapes := []shape{
		{arrDoc, arrDoc, strings.Repeat("/0", n-1) + "/-"},
		{objDoc, objDoc, strings.Repeat("/a", n-1) + "/b"},
		{arrDoc, objDoc, strings.Repeat("/0", n-1) + "/0"},
	}
	type unit struct {
		sh     shape
		second string
		legacy bool
		indent string
		merge  bool
	}
	var units []unit
	for _, sh := range shapes {
		first := sh.bottom[:strings.Index(sh.bottom[1:], "/")+1]
		seconds := []string{``,
			`{"op":"test","path":"","value":1}`, `{"op":"test","path":"` + first + `","value":[]}`,
			`{"op":"copy","from":"","path":"/zz"}`, `{"op":"copy","from":"` + first + `","path":"/zz"}`,
			`{"op":"move","from":"` + first + `","path":"/zz"}`, `{"op":"remove","path":"` + sh.bottom[:len(sh.bottom)-2] + `"}`,
			`{"op":"replace","path":"` + first + `","value":null}`, `{"op":"add","path":"` + first + `/zz","value":1}`}
		for i, second := range seconds {
			units = append(units, unit{sh: sh, second: second})
			if i <= 2 {
				units = append(units, unit{sh: sh, second: second, legacy: true}, unit{sh: sh, second: second, indent: " "})
			}
		}
		units = append(units, unit{sh: sh, merge: true}, unit{sh: sh, merge: true, legacy: true})
	}
	ctx.Parallel(len(units), func(w *core.Worker, i int) {
		u := units[i]
		if u.merge {
			w.Tick(func() string { return "combined nesting: MergePatch of two deep values" })
			r := impl.MergePatch(u.legacy, []byte(`{"k":`+u.sh.doc+`}`), []byte(`{"k":`+u.sh.val+`,"j":`+u.sh.doc+`}`))
			atomic.AddInt64(&nExec, 1)
			ctx.Count("c04_combined_nesting_runs", 1)
			if r.Panic != "" {
				ctx.Violate(core.Violation{Property: "C04", Clause: "panic", Key: "C04:panic:" + impl.PanicSite(r.Panic), Engine: "mergex",
					Detail: "MergePatch of two deep values: " + r.Panic, Case: core.J(MergeCase{Func: "MergePatch", Args: []string{"<deep>", "<deep>"}})})
			}
			return
		}
		patch := `[{"op":"add","path":"` + u.sh.bottom + `","value":` + u.sh.val + `}`
		if u.second != "" {
			patch += "," + u.second
		}
		patch += "]"
		w.Tick(func() string {
			return fmt.Sprintf("combined nesting (legacy=%v indent=%q): add a %d-deep value at the bottom of a %d-deep document, then %s", u.legacy, u.indent, n, n, u.second)
		})
		call := impl.Call{Doc: []byte(u.sh.doc), Patch: []byte(patch), Opt: defaultOpt, Indent: u.indent}
		var o impl.Obs
		lib := "v5"
		if u.legacy {
			o, lib = impl.V4Apply(call), "v4"
		} else {
			o = impl.V5Apply(call)
		}
		atomic.AddInt64(&nExec, 1)
		ctx.Count("c04_combined_nesting_runs", 1)
		if o.Panic != "" {
			_ = p
			ctx.Violate(core.Violation{Property: "C04", Clause: "panic", Key: "C04:panic:" + impl.PanicSite(o.Panic), Engine: "seqx",
				Detail: fmt.Sprintf("[%s] a %d-deep document, add of a %d-deep value at its bottom, then %s: %s", lib, n, n, u.second, o.Panic),
				Case:   core.J(SeqCase{Lib: lib, Doc: "<" + fmt.Sprint(n) + "-deep document: see detail>", Patch: "<see detail>", Opt: defaultOpt})})
		}
	})
}

// decode + accessors, panics only, both packages
func runC04Decode(ctx *core.Ctx, tier string) {
	texts := []string{`[{"op":"test","path":""}]`, `[{"op":"add"}]`, `[{}]`, `[null]`, `[{"op":null,"path":null,"from":null,"value":null}]`, `null`, `[{"op":"move","path":"/a"}]`,
		`[{"op":"copy","path":"/a","from":1}]`, `[{"op":1,"path":1,"value":1}]`, `[{"op":"add","path":"/a","value":1}]`, `[{"value":[null]}]`, `[[]]`, `[1]`}
	docs := []string{`{}`, `[]`, `{"a":1}`, `[1]`, `null`, `1`, `""`, `{"a":{"b":null},"c":[null]}`, `[[1],{"a":2}]`}
	// every operation kind with every subset of its members missing or null, at root and non-root
	// locations (the legacy DecodePatch accepts all of these; v5 rejects most at decode time)
	seenT := map[string]bool{}
	for _, t := range texts {
		seenT[t] = true
	}
	for _, kind := range []string{"add", "remove", "replace", "move", "copy", "test", "bogus"} {
		for _, path := range []string{"", "/a", "/0", "/zz", "/a/b", "/c/0"} {
			for mask := 0; mask < 27; mask++ {
				parts := []string{`"op":"` + kind + `"`}
				for i, name := range []string{"path", "from", "value"} {
					val := map[string]string{"path": `"` + path + `"`, "from": `"/a"`, "value": `{"x":[null]}`}[name]
					switch (mask / []int{1, 3, 9}[i]) % 3 {
					case 0:
						parts = append(parts, `"`+name+`":`+val)
					case 1: // missing
					case 2:
						parts = append(parts, `"`+name+`":null`)
					}
				}
				t := "[{" + strings.Join(parts, ",") + "}]"
				if !seenT[t] {
					seenT[t] = true
					texts = append(texts, t)
				}
				t2 := `[{"op":"add","path":"/q","value":1},{` + strings.Join(parts, ",") + `},{"op":"test","path":"/q","value":1}]`
				if mask%3 != 0 || mask >= 9 {
					if !seenT[t2] {
						seenT[t2] = true
						texts = append(texts, t2)
					}
				}
			}
		}
	}
	ctx.Count("c04_awkward_patch_texts", int64(len(texts)))
	for _, t := range texts {
		for _, d := range docs {
			for _, legacy := range []bool{false, true} {
				c := impl.Call{Doc: []byte(d), Patch: []byte(t), Opt: defaultOpt}
				var o impl.Obs
				if legacy {
					o = impl.V4Apply(c)
				} else {
					o = impl.V5Apply(c)
				}
				ctx.Count("c04_decode_apply_calls", 1)
				atomic.AddInt64(&nExec, 1)
				if o.Panic != "" {
					lib := "v5"
					if legacy {
						lib = "v4"
					}
					ctx.Violate(core.Violation{Property: "C04", Clause: "panic", Key: "C04:panic:" + impl.PanicSite(o.Panic), Engine: "seqx",
						Detail: fmt.Sprintf("DecodePatch(%s)+Apply(%s) [%s] panics: %s", t, d, lib, o.Panic),
						Case:   core.J(SeqCase{Lib: lib, Doc: d, Patch: t, Opt: defaultOpt})})
				}
			}
		}
		dv := impl.V5Decode([]byte(t))
		if dv.Panic != "" {
			ctx.Violate(core.Violation{Property: "C04", Clause: "panic", Key: "C04:panic:" + impl.PanicSite(dv.Panic), Engine: "decodex",
				Detail: fmt.Sprintf("DecodePatch(%s) or an accessor panics: %s", t, dv.Panic), Case: core.J(DecodeCase{t})})
		}
	}
}

func init() {
	checks["C04"] = &check{Engine: "bytex+seqx",
		Run: func(ctx *core.Ctx, tier string) {
			ctx.Rep.Rule = "what the other checks exclude, judged for 'returns, does not panic' (hang = no return within the watchdog): " +
				"(1) every string over 16 symbols up to length 4 (thorough 5) in every []byte parameter of both packages (DecodePatch, Apply, Equal, MergePatch, MergeMergePatches, CreateMergePatch), the other parameter over {same, {}, [], {\"a\":1}, null}; " +
				"(2) operation sequences of length <= 2 in which at least one operation is out-of-domain (empty tokens, non-canonical / overflowing / MinInt64 index tokens, bad ~ escapes, pointers without '/', '' as destination or remove target, root replaced by null or a scalar, test without value) " +
				"on 8 documents under every combination of the ApplyOptions booleans with limits {0,1,10^6} (quick: one limit per combination), 3 indent strings; legacy package under its globals; " +
				"(3) 10000/10001-deep nesting into every entry point of both packages, and nesting that only exceeds the limit after an add put a 5100-deep value at the bottom of a 5100-deep document (followed by each kind of operation); (4) EnsurePathExistsOnAdd with indices up to 10^4; (5) DecodePatch + accessors + Apply on awkward operation objects (every kind with every subset of its members missing or null); (7) size sweeps: strings, names and number literals of every length 0..130 and around the powers of two up to 65536, objects and arrays of 0..70 and around 128..1024 members, nesting 1..70 and around 100..1000, through Apply (sequences <= 2) and through all four merge functions, both packages; (6) ~10^4 string shapes (run-length patterns of ASCII / invalid UTF-8 / multi-byte / escapes around the decoder's buffer-growth boundaries) as root, element, member value and member name. states = distinct well-formed strings; non-trivial = library calls"
			n := 4
			if tier == "thorough" {
				n = 5
			}
			ctx.Phase("decode", func() { runC04Decode(ctx, tier) })
			ctx.Phase("ensure_big", func() { runEnsureBig(ctx) })
			ctx.Phase("deep", func() { runDeep(ctx, "C04", tier, true, false) })
			ctx.Phase("combined_nesting", func() { runCombinedNesting(ctx) })
			ctx.Phase("bytex_b_v5", func() { runBytexB(ctx, "C04", n, byteFlags{panics: true, applyOK: true}) })
			ctx.Phase("bytex_b_legacy", func() { runBytexB(ctx, "C04", n, byteFlags{panics: true, applyOK: true, legacy: true}) })
			ctx.Phase("string_shapes", func() {
				runStringShapes(ctx, "C04", byteFlags{panics: true, applyOK: true})
				runStringShapes(ctx, "C04", byteFlags{panics: true, applyOK: true, legacy: true})
				runNumberShapes(ctx, "C04", byteFlags{panics: true, applyOK: true})
				runNumberShapes(ctx, "C04", byteFlags{panics: true, applyOK: true, legacy: true})
				runRunShapes(ctx, "C04", byteFlags{panics: true, applyOK: true})
			})
			ctx.Phase("sizes", func() {
				// strings / names / literals of every length 0..130 and around the powers of two, objects and arrays of
				// the threshold sizes, through Apply of both packages (panics only)
				for _, legacy := range []bool{false, true} {
					base := &seqProp{ID: "C04", Legacy: legacy, Opts: []r69.Options{defaultOpt}, Judge: func(r *seqRun) {
						if r.obs.Panic != "" {
							r.viol("panic", "panic:"+impl.PanicSite(r.obs.Panic), "library panicked: "+r.obs.Panic)
						}
					}}
					for _, ph := range sizePhases(base, tier, 2, false) {
						runSeq(ctx, ph)
					}
				}
				for _, legacy := range []bool{false, true} {
					runSizeSweepPanics(ctx, "C04", legacy, tier)
				}
			})
			ctx.Phase("seq_legacy", func() { runC04Seq(ctx, true, tier) })
			ctx.Phase("seq_v5", func() { runC04Seq(ctx, false, tier) })
			ctx.Rep.Validated = atomic.LoadInt64(&nExec)
			ctx.Rep.Evals, ctx.Rep.Trans = ctx.Rep.Validated, ctx.Rep.Validated
			ctx.Rep.Nontrivial = ctx.Rep.Validated
		},
		Replay: func(ctx *core.Ctx, raw json.RawMessage) {
			var probe struct {
				Func string `json:"func"`
				Doc  string `json:"doc"`
				P    string `json:"patch_text"`
			}
			json.Unmarshal(raw, &probe)
			switch {
			case probe.Func != "":
				var c MergeCase
				json.Unmarshal(raw, &c)
				if strings.HasPrefix(c.Args[0], "<") {
					runDeep(ctx, "C04", "thorough", true, false)
					return
				}
				m := &mergeRun{id: "C04", legacy: c.Lib == "v4", ctx: ctx}
				for _, a := range c.Args {
					m.judgeBytes(a, byteFlags{panics: true, applyOK: true, legacy: m.legacy})
				}
			default:
				var c SeqCase
				json.Unmarshal(raw, &c)
				p := &seqProp{ID: "C04", Legacy: c.Lib == "v4", Judge: func(*seqRun) {}}
				impl.SetGlobals(p.Legacy, false, c.Opt)
				call := impl.Call{Doc: []byte(c.Doc), Patch: []byte(c.Patch), Opt: c.Opt, Indent: c.Indent}
				var o impl.Obs
				if p.Legacy {
					o = impl.V4Apply(call)
				} else {
					o = impl.V5Apply(call)
				}
				if o.Panic != "" {
					ctx.Violate(core.Violation{Property: "C04", Clause: "panic", Key: "C04:panic:" + impl.PanicSite(o.Panic), Detail: o.Panic, Engine: "seqx", Case: raw})
				}
			}
		},
		Budget: map[string]time.Duration{"quick": 200 * time.Second, "thorough": 25 * time.Minute}}
}

func hasHugeIndex(ops []r69.Op) bool {
	for _, o := range ops {
		if o.Kind != "add" {
			continue
		}
		for _, t := range strings.Split(o.Path, "/") {
			t = strings.TrimLeft(t, "+-")
			if len(t) > 4 && strings.Trim(t, "0123456789") == "" {
				return true
			}
		}
	}
	return false
}
