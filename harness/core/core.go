// Package core holds what every engine shares: violation records, counters,
// the concurrent state set, the parallel runner and the hang watchdog.
package core

import (
	"crypto/sha1"
	"encoding/json"
	"fmt"
	"os"
	"runtime"
	"sort"
	"sync"
	"sync/atomic"
	"time"
)

// Violation is one oracle failure.
type Violation struct {
	Property string          `json:"property"`
	Clause   string          `json:"clause"` // which oracle clause
	Key      string          `json:"key"`    // finding key: clause + call site / input shape
	Detail   string          `json:"detail"`
	Engine   string          `json:"engine"`
	Case     json.RawMessage `json:"case"` // engine-specific replayable case
	GoTest   string          `json:"go_test,omitempty"`
}

// Report is what a harness run hands to the driver.
type Report struct {
	Property   string                 `json:"property"`
	Engine     string                 `json:"engine"`
	Tier       string                 `json:"tier"`
	States     int64                  `json:"states"`
	Trans      int64                  `json:"transitions"`
	Validated  int64                  `json:"traces_validated_against_impl"`
	Evals      int64                  `json:"evaluations"`
	Nontrivial int64                  `json:"distinct_nontrivial"`
	Rule       string                 `json:"rule"`
	Exhaustive bool                   `json:"exhaustive"`
	Caps       []string               `json:"caps_hit,omitempty"`
	Counters   map[string]int64       `json:"counters"`
	Samples    []interface{}          `json:"samples"`
	Extra      map[string]interface{} `json:"extra,omitempty"`
	Violations []Violation            `json:"violations"`
	NViol      int64                  `json:"violations_total"`
	Assume     []string               `json:"assumptions"`
	WallS      float64                `json:"wall_s"`
}

// Ctx is the shared run context.
type Ctx struct {
	Rep      *Report
	mu       sync.Mutex
	ctr      map[string]*int64
	seenKeys map[string]int
	states   [64]stateShard
	nstates  int64
	Deadline time.Time
	Start    time.Time
	MaxViol  int
	hitDL    int32
}

type stateShard struct {
	mu sync.Mutex
	m  map[[16]byte]struct{}
}

func NewCtx(prop, engine, tier string, budget time.Duration) *Ctx {
	c := &Ctx{Rep: &Report{Property: prop, Engine: engine, Tier: tier, Exhaustive: true,
		Counters: map[string]int64{}, Extra: map[string]interface{}{}},
		ctr: map[string]*int64{}, seenKeys: map[string]int{}, Start: time.Now(), MaxViol: 40}
	c.Deadline = c.Start.Add(budget)
	for i := range c.states {
		c.states[i].m = map[[16]byte]struct{}{}
	}
	return c
}

// Count bumps a named counter (cheap, concurrent).
func (c *Ctx) Count(name string, n int64) {
	c.mu.Lock()
	p := c.ctr[name]
	if p == nil {
		p = new(int64)
		c.ctr[name] = p
	}
	c.mu.Unlock()
	atomic.AddInt64(p, n)
}

// Counter returns a pointer for hot loops.
func (c *Ctx) Counter(name string) *int64 {
	c.mu.Lock()
	defer c.mu.Unlock()
	p := c.ctr[name]
	if p == nil {
		p = new(int64)
		c.ctr[name] = p
	}
	return p
}

// AddState records a state key; reports whether it is new.
func (c *Ctx) AddState(key string) bool {
	h := sha1.Sum([]byte(key))
	var k [16]byte
	copy(k[:], h[:16])
	s := &c.states[int(k[0])%len(c.states)]
	s.mu.Lock()
	_, ok := s.m[k]
	if !ok {
		s.m[k] = struct{}{}
	}
	s.mu.Unlock()
	if !ok {
		atomic.AddInt64(&c.nstates, 1)
	}
	return !ok
}

func (c *Ctx) NStates() int64 { return atomic.LoadInt64(&c.nstates) }

// Violate records a violation; at most a few per key are kept in full.
func (c *Ctx) Violate(v Violation) {
	atomic.AddInt64(&c.Rep.NViol, 1)
	c.mu.Lock()
	defer c.mu.Unlock()
	c.seenKeys[v.Key]++
	if c.seenKeys[v.Key] > 2 || len(c.Rep.Violations) >= c.MaxViol {
		return
	}
	c.Rep.Violations = append(c.Rep.Violations, v)
}

// Sample keeps up to n sample cases.
func (c *Ctx) Sample(s interface{}, n int) {
	c.mu.Lock()
	if len(c.Rep.Samples) < n {
		c.Rep.Samples = append(c.Rep.Samples, s)
	}
	c.mu.Unlock()
}

// Expired reports (and remembers) that the internal deadline passed.
func (c *Ctx) Expired() bool {
	if atomic.LoadInt32(&c.hitDL) != 0 {
		return true
	}
	if time.Now().After(c.Deadline) {
		atomic.StoreInt32(&c.hitDL, 1)
		return true
	}
	return false
}

func (c *Ctx) Cap(s string) {
	c.mu.Lock()
	defer c.mu.Unlock()
	for _, x := range c.Rep.Caps {
		if x == s {
			return
		}
	}
	c.Rep.Caps = append(c.Rep.Caps, s)
	c.Rep.Exhaustive = false
}

// SerialShard, when set, makes Parallel run this process's share (shard i of n) serially.
var SerialShard func() (int, int)

// Worker is one goroutine of Parallel; engines call Tick before each library call
// so the watchdog can tell a hang from slow progress and name the call in flight.
type Worker struct {
	ID     int
	n      int64
	cur    atomic.Value // func() string
	active int32
}

func (w *Worker) Tick(desc func() string) {
	if traceW != nil {
		// VERIF_TRACE=<path>: every case is written out before it runs, so that a
		// crash the runtime cannot recover from (stack overflow, out of memory) can
		// be attributed by the driver: the culprit is among the last lines
		s := desc()
		id := -1
		if w != nil {
			id = w.ID
		}
		traceMu.Lock()
		fmt.Fprintf(traceW, "%d\t%s\n", id, s)
		traceMu.Unlock()
	}
	if w == nil {
		return
	}
	w.cur.Store(desc)
	atomic.AddInt64(&w.n, 1)
}

var (
	traceMu sync.Mutex
	traceW  = func() *os.File {
		if p := os.Getenv("VERIF_TRACE"); p != "" {
			if f, err := os.OpenFile(p, os.O_CREATE|os.O_WRONLY|os.O_APPEND, 0o644); err == nil {
				return f
			}
		}
		return nil
	}()
)

var (
	workersMu sync.Mutex
	workers   []*Worker
)

func newWorker() *Worker {
	workersMu.Lock()
	defer workersMu.Unlock()
	w := &Worker{ID: len(workers)}
	workers = append(workers, w)
	return w
}

// Parallel runs fn(w, i) for i in [0,n) on all cores; stops handing out work when
// the deadline passes (then the run is marked non-exhaustive).
func (c *Ctx) Parallel(n int, fn func(w *Worker, i int)) {
	if SerialShard != nil {
		// the engine owns process-wide state (one controller per process): this worker process
		// runs its share of the units serially
		shard, nshards := SerialShard()
		w := newWorker()
		atomic.StoreInt32(&w.active, 1)
		defer atomic.StoreInt32(&w.active, 0)
		for i := 0; i < n; i++ {
			if i%nshards != shard {
				continue
			}
			if c.Expired() {
				c.Cap("internal deadline reached before all work units were started")
				c.Count("work_units_not_started", 1)
				return
			}
			fn(w, i)
		}
		return
	}
	var next int64 = -1
	var wg sync.WaitGroup
	k := runtime.GOMAXPROCS(0)
	if k > n {
		k = n
	}
	for ; k > 0; k-- {
		wg.Add(1)
		go func() {
			defer wg.Done()
			w := newWorker()
			atomic.StoreInt32(&w.active, 1)
			defer atomic.StoreInt32(&w.active, 0)
			for {
				i := int(atomic.AddInt64(&next, 1))
				if i >= n {
					return
				}
				if c.Expired() {
					c.Cap("internal deadline reached before all work units were started")
					c.Count("work_units_not_started", 1)
					return
				}
				fn(w, i)
			}
		}()
	}
	wg.Wait()
}

// Phase records how long a named phase of a check took.
func (c *Ctx) Phase(name string, f func()) {
	t0 := time.Now()
	f()
	c.mu.Lock()
	ph, _ := c.Rep.Extra["phase_seconds"].(map[string]float64)
	if ph == nil {
		ph = map[string]float64{}
		c.Rep.Extra["phase_seconds"] = ph
	}
	ph[name] += time.Since(t0).Seconds()
	c.mu.Unlock()
}

// Finish fills the report and writes it.
func (c *Ctx) Finish(path string) {
	c.mu.Lock()
	for k, p := range c.ctr {
		c.Rep.Counters[k] = atomic.LoadInt64(p)
	}
	c.mu.Unlock()
	c.Rep.States += c.NStates()
	c.Rep.WallS = time.Since(c.Start).Seconds()
	sort.Slice(c.Rep.Violations, func(i, j int) bool { return c.Rep.Violations[i].Key < c.Rep.Violations[j].Key })
	b, _ := json.MarshalIndent(c.Rep, "", " ")
	if err := os.WriteFile(path, b, 0o644); err != nil {
		fmt.Fprintln(os.Stderr, "cannot write report:", err)
		os.Exit(2)
	}
}

// Watchdog aborts the process when an active worker issues no new library call
// for limit: the call in flight hangs (C04). It writes what was running to path
// and exits 3.
func Watchdog(limit time.Duration, path string) {
	go func() {
		type st struct {
			n int64
			t time.Time
		}
		last := map[*Worker]st{}
		for {
			time.Sleep(500 * time.Millisecond)
			workersMu.Lock()
			ws := append([]*Worker(nil), workers...)
			workersMu.Unlock()
			now := time.Now()
			for _, w := range ws {
				n := atomic.LoadInt64(&w.n)
				l, ok := last[w]
				if !ok || l.n != n || atomic.LoadInt32(&w.active) == 0 || n == 0 {
					last[w] = st{n, now}
					continue
				}
				if now.Sub(l.t) > limit {
					what := "(unknown)"
					if f, ok := w.cur.Load().(func() string); ok && f != nil {
						what = f()
					}
					os.WriteFile(path, []byte(what), 0o644)
					fmt.Fprintf(os.Stderr, "HANG: a library call did not return within %v; in flight: %s\n", limit, what)
					os.Exit(3)
				}
			}
		}
	}()
}

func J(v interface{}) json.RawMessage {
	b, err := json.Marshal(v)
	if err != nil {
		panic(err)
	}
	return b
}

// ExportStates writes the state-key set (for merging across worker processes).
func (c *Ctx) ExportStates(path string) {
	f, err := os.Create(path)
	if err != nil {
		return
	}
	defer f.Close()
	for i := range c.states {
		for k := range c.states[i].m {
			f.Write(k[:])
		}
	}
}

// ImportStates merges a state-key file written by ExportStates.
func (c *Ctx) ImportStates(path string) {
	b, err := os.ReadFile(path)
	if err != nil {
		return
	}
	for i := 0; i+16 <= len(b); i += 16 {
		var k [16]byte
		copy(k[:], b[i:i+16])
		s := &c.states[int(k[0])%len(c.states)]
		if _, ok := s.m[k]; !ok {
			s.m[k] = struct{}{}
			c.nstates++
		}
	}
}
