package main

import (
	"fmt"
	"strconv"
	"strings"

	r69 "verif.local/h/ref6902"
	rj "verif.local/h/refjson"
)

// Scale documents: the curated documents are tiny, so a fast path keyed on a size threshold
// (more than 16/32/64 members, indices beyond 255/511, values past 64 or 4096 bytes, nesting
// deeper than 8) would never run. These are few, large, and explored with a small hand-picked
// alphabet (scaleOps) instead of Sigma(D).

func wide40() string {
	var sb strings.Builder
	sb.WriteString("{")
	for i := 0; i < 40; i++ {
		if i > 0 {
			sb.WriteString(",")
		}
		name := fmt.Sprintf("k%02d", i)
		switch {
		case i%10 == 1:
			fmt.Fprintf(&sb, `"%s":{"x":%d.0,"y":1e400,"n":null}`, name, i)
		case i%10 == 5:
			fmt.Fprintf(&sb, `"%s":null`, name)
		case i == 38:
			fmt.Fprintf(&sb, `"%s":[%d,[%d]]`, name, i, i)
		default:
			fmt.Fprintf(&sb, `"%s":%d.0`, name, i)
		}
	}
	sb.WriteString("}")
	return sb.String()
}

func longArray(n int, elem func(i int) string) string {
	parts := make([]string, n)
	for i := range parts {
		parts[i] = elem(i)
	}
	return "[" + strings.Join(parts, ",") + "]"
}

func deepDoc(levels int) string {
	s := `{"leaf":[1.0,{"z":null}]}`
	for i := 0; i < levels; i++ {
		if i%2 == 0 {
			s = `{"d":` + s + `,"s":` + strconv.Itoa(i) + `}`
		} else {
			s = `[` + s + `,` + strconv.Itoa(i) + `]`
		}
	}
	return s
}

var scaleDocs = []string{
	wide40(),
	`{"a":` + longArray(600, func(i int) string { return strconv.Itoa(i) }) + `,"o":{"k":1}}`,
	`{"a":` + longArray(260, func(i int) string { return `{"i":` + strconv.Itoa(i) + `}` }) + `}`,
	deepDoc(12),
}

// scaleOps: a small alphabet aimed at the thresholds: first / middle / last / beyond positions,
// the indices around 255/256 and 511/512, negative counterparts, huge tokens.
func scaleOps(d *rj.Value) []r69.Op {
	var ptrs []ptrInfo
	var froms []string
	var walk func(v *rj.Value, p string, depth int)
	walk = func(v *rj.Value, p string, depth int) {
		ptrs = append(ptrs, ptrInfo{p, v})
		if depth >= 14 {
			return
		}
		switch v.K {
		case rj.Obj:
			n := len(v.O)
			pick := map[int]bool{0: true, 1: true, n / 2: true, n - 1: true, n - 2: true}
			for i, m := range v.O {
				if pick[i] || (m.V.K == rj.Null && i < 8) || (m.V.K != rj.Num && n <= 4) {
					q := p + "/" + r69.EncodeToken(m.Name)
					if m.V.K == rj.Obj || m.V.K == rj.Arr {
						if len(froms) < 5 {
							froms = append(froms, q)
						}
						walk(m.V, q, depth+1)
					} else {
						ptrs = append(ptrs, ptrInfo{q, m.V})
					}
				}
			}
			ptrs = append(ptrs, ptrInfo{p + "/zz", nil})
		case rj.Arr:
			n := len(v.A)
			idx := []int{0, 1, n / 2, 255, 256, 257, 511, 512, 513, n - 1, n, n + 1}
			seen := map[int]bool{}
			for _, i := range idx {
				if i < 0 || seen[i] {
					continue
				}
				seen[i] = true
				q := p + "/" + strconv.Itoa(i)
				if i < n {
					if (v.A[i].K == rj.Obj || v.A[i].K == rj.Arr) && depth < 13 && (i == 0 || i == n-1 || i == 256) {
						walk(v.A[i], q, depth+1)
					} else {
						ptrs = append(ptrs, ptrInfo{q, v.A[i]})
					}
				} else if i <= n+1 || i == 512 || i == 256 {
					ptrs = append(ptrs, ptrInfo{q, nil})
				}
			}
			// one-character tokens that are not digits (a hand-rolled digit parse maps them to 10, 17, 49, 72 ...)
			for _, t := range []string{":", "A", "a", "x", "/", " "} {
				ptrs = append(ptrs, ptrInfo{p + "/" + r69.EncodeToken(t), nil})
				if len(froms) < 9 {
					froms = append(froms, p+"/"+r69.EncodeToken(t))
				}
			}
			for _, t := range []string{"-", "-1", strconv.Itoa(-n), strconv.Itoa(-(n + 1)), "-256", "-257", "-512", "-513",
				"18446744073709551615", "-18446744073709551615", "9223372036854775808"} {
				var node *rj.Value
				if k, err := strconv.Atoi(t); err == nil && k < 0 && -k <= n {
					node = v.A[n+k]
				}
				ptrs = append(ptrs, ptrInfo{p + "/" + t, node})
			}
		}
	}
	walk(d, "", 0)
	one, null := rj.MustParse(`1`), rj.NewNull()
	long := longValue
	var ops []r69.Op
	for _, p := range ptrs {
		ops = append(ops, r69.Op{Kind: "add", Path: p.P, Value: one, HasValue: true}, r69.Op{Kind: "add", Path: p.P, Value: long, HasValue: true},
			r69.Op{Kind: "remove", Path: p.P}, r69.Op{Kind: "replace", Path: p.P, Value: null, HasValue: true})
		if p.Node != nil && rj.Nodes(p.Node) < 40 {
			ops = append(ops, r69.Op{Kind: "test", Path: p.P, Value: p.Node, HasValue: true})
		} else {
			ops = append(ops, r69.Op{Kind: "test", Path: p.P, Value: null, HasValue: true})
		}
	}
	for _, f := range froms {
		for i, p := range ptrs {
			if i%3 == 0 || p.Node == nil {
				ops = append(ops, r69.Op{Kind: "copy", From: f, Path: p.P}, r69.Op{Kind: "move", From: f, Path: p.P})
			}
		}
	}
	seen := map[string]bool{}
	out := ops[:0]
	for _, o := range ops {
		k := r69.OpText(o)
		if !seen[k] {
			seen[k] = true
			out = append(out, o)
		}
	}
	return out
}

// scaleOpsSmall: the second-level alphabet on scale documents - every fourth operation of the
// {add 1, remove, test} part and a few copies/moves.
func scaleOpsSmall(d *rj.Value) []r69.Op {
	all := scaleOps(d)
	var out []r69.Op
	n := 0
	for _, o := range all {
		switch o.Kind {
		case "add", "remove", "test":
			if o.HasValue && o.Value == longValue {
				continue
			}
			n++
			if n%4 == 0 {
				out = append(out, o)
			}
		case "copy", "move":
			n++
			if n%16 == 0 {
				out = append(out, o)
			}
		}
	}
	return out
}

// scalePhase: p's companion on the scale documents (depth 2, scaleOps at both levels).
func scalePhase(p *seqProp) *seqProp {
	d := *p
	d.Docs = scaleDocs
	d.Depth = 2
	d.Opts = p.Opts[:1]
	first, second := scaleOps, scaleOpsSmall
	if len(p.Alpha) > 0 && p.Alpha[0].NoRootAdd {
		// the legacy package offers no add "" / copy from "": outside C18's domain, as in its main phase
		first, second = noRootAdd(scaleOps), noRootAdd(scaleOpsSmall)
	}
	d.Alpha = []*AlphaCfg{{Custom: first}, {Custom: second}}
	d.Rule = "SCALE: a 40-member object, arrays of 600 numbers and of 260 objects, a 14-level document; all sequences <= 2 over a hand-picked alphabet (first / middle / last / beyond positions, indices around 255|256 and 511|512 and their negatives, 20-digit tokens, an 80-byte value); same oracle"
	return &d
}

// scaleObjects: the 40-member object and close relatives (one member changed, removed, added, a
// nested member changed, a null made non-null; 16- / 17- / 33-member prefixes) for the pairwise merge checks.
func scaleObjects() []*rj.Value {
	base := rj.MustParse(wide40())
	out := []*rj.Value{base}
	mod := func(f func(v *rj.Value)) {
		c := rj.Clone(base)
		f(c)
		out = append(out, c)
	}
	mod(func(v *rj.Value) { v.O[7].V = rj.MustParse(`7.5`) })
	mod(func(v *rj.Value) { v.O = append(v.O[:20:20], v.O[21:]...) })
	mod(func(v *rj.Value) { v.O = append(v.O, rj.Member{Name: "k40", V: rj.MustParse(`{"n":1}`)}) })
	mod(func(v *rj.Value) { v.O[11].V.O[0].V = rj.MustParse(`"changed"`) })
	mod(func(v *rj.Value) { v.O[5].V = rj.MustParse(`0`) })
	mod(func(v *rj.Value) { v.O[39].V = rj.MustParse(`[1]`) })
	for _, n := range []int{16, 17, 33} {
		c := rj.Clone(base)
		c.O = c.O[:n]
		out = append(out, c)
	}
	// widths around powers of two (pre-sizing, small-map fast paths, byte-wide counters) and three narrow partners
	for _, n := range []int{8, 9, 16, 17, 32, 33, 64, 65, 128, 129, 256, 257} {
		o := rj.NewObj()
		for i := 0; i < n; i++ {
			v := rj.MustParse(fmt.Sprint(i))
			switch i {
			case 1:
				v = rj.MustParse(`{"x":1}`)
			case 2:
				v = rj.MustParse(`null`)
			}
			o.O = append(o.O, rj.Member{Name: fmt.Sprintf("m%03d", i), V: v})
		}
		out = append(out, o)
	}
	out = append(out, parseAll([]string{`{}`, `{"m000":9}`, `{"a":1,"b":{"c":2},"m001":{"y":2},"z":null}`})...)
	for i := range out {
		// CreateMergePatch needs a target without null members for the round trip: keep both kinds
		c := rj.Clone(out[i])
		var kept []rj.Member
		for _, m := range c.O {
			if m.V.K != rj.Null {
				kept = append(kept, m)
			}
		}
		c.O = kept
		out = append(out, c)
	}
	return dedupe(out)
}

// neighbourObjects: numbers that differ by one unit in the last place of a float64 (and are exactly
// representable), as member values, nested and inside arrays - a comparison with a tolerance or through a
// narrower type calls them equal.
func neighbourObjects() []*rj.Value {
	pairs := [][2]string{{"9007199254740990", "9007199254740991"}, {"4503599627370497", "4503599627370498"}, {"0.1", "0.10000000000000002"},
		{"1e+308", "1.0000000000000002e+308"}, {"16777216", "16777217"}, {"-2147483648", "-2147483649"}, {"5e-324", "1e-323"}}
	// ... and numbers that share their integer part (a comparison through an integer type calls them equal)
	pairs = append(pairs, [2]string{"2", "2.5"}, [2]string{"-7", "-7.25"}, [2]string{"0", "0.5"}, [2]string{"2.25", "2.75"})
	var out []*rj.Value
	for _, p := range pairs {
		for _, x := range p {
			out = append(out, parseAll([]string{`{"n":` + x + `}`, `{"o":{"n":` + x + `,"k":1}}`, `{"a":[` + x + `]}`, `{"a":[1,{"n":` + x + `}]}`})...)
		}
	}
	return out
}

func noRootAdd(f func(d *rj.Value) []r69.Op) func(d *rj.Value) []r69.Op {
	return func(d *rj.Value) []r69.Op {
		var out []r69.Op
		for _, o := range f(d) {
			if (o.Kind == "add" && o.Path == "") || (o.Kind == "copy" && o.From == "") {
				continue
			}
			out = append(out, o)
		}
		return out
	}
}
