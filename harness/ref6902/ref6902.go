// Package ref6902 is the reference evaluator for RFC 6902 patches with RFC 6901
// pointers, in the dialect the properties document (DESIGN.md appendix A). It works
// on refjson trees, tracks member order, and is three-valued: a case outside the
// stated domain yields DontCare.
package ref6902

import (
	"fmt"
	"strings"

	rj "verif.local/h/refjson"
)

type Options struct {
	Neg          bool  // SupportNegativeIndices
	AllowMissing bool  // AllowMissingPathOnRemove
	Ensure       bool  // EnsurePathExistsOnAdd
	Limit        int64 // AccumulatedCopySizeLimit
	EscapeHTML   bool
}

type Op struct {
	Kind     string
	Path     string
	From     string
	Value    *rj.Value
	HasValue bool
}

type Cause int

const (
	None Cause = iota
	TestUnequal
	AbsentMember      // add/remove/replace/move/copy addressing an absent object member
	ParentUnreachable // any operation whose parent location cannot be reached
	IndexOutOfRange
	BadIndexToken
	CopyLimit
	RootNotContainer
	MoveFromRoot
	NegativeOff // negative index token while negative indices are off (error, class open)
)

var causeNames = [...]string{"None", "TestUnequal", "AbsentMember", "ParentUnreachable", "IndexOutOfRange",
	"BadIndexToken", "CopyLimit", "RootNotContainer", "MoveFromRoot", "NegativeOff"}

func (c Cause) String() string { return causeNames[c] }

// Result of evaluating a whole patch.
type Result struct {
	Doc      *rj.Value // final document, nil on failure
	FailAt   int       // index of the first failing operation, -1 if all applied
	Cause    Cause
	AltCause Cause  // a second acceptable cause when two coincide (None otherwise)
	DontCare string // non-empty: outside the stated domain from operation DCAt on
	DCAt     int
	// copy accounting (C12): running total after each copy lies in [TotLo, TotHi]
	TotLo, TotHi int64
	CopyTotals   [][2]int64 // [lo,hi] running total after each copy evaluated
	// LimitWindow: the reference cannot decide whether the limit trips (total
	// range straddles the limit); failure with CopyLimit and success both accepted.
	LimitWindow bool
	Skipped     []int // removes skipped under AllowMissing
	OpCause     Cause // cause class of op that was skipped etc. (debug)
}

func (r *Result) OK() bool { return r.DontCare == "" && r.FailAt < 0 }

type dontCare struct{ why string }

type failure struct {
	c   Cause
	alt Cause
}

// ---- pointers ----

// SplitPointer decodes an RFC 6901 pointer. ok=false means the text is outside
// the domain (no leading '/', bad ~ escape).
func SplitPointer(p string) (toks []string, ok bool) {
	if p == "" {
		return nil, true
	}
	if p[0] != '/' {
		return nil, false
	}
	for _, t := range strings.Split(p[1:], "/") {
		// an empty token is an ordinary reference token (the member named "")
		var sb strings.Builder
		for i := 0; i < len(t); i++ {
			if t[i] == '~' {
				if i+1 < len(t) && t[i+1] == '0' {
					sb.WriteByte('~')
					i++
					continue
				}
				if i+1 < len(t) && t[i+1] == '1' {
					sb.WriteByte('/')
					i++
					continue
				}
				return nil, false
			}
			sb.WriteByte(t[i])
		}
		toks = append(toks, sb.String())
	}
	return toks, true
}

// EncodeToken is the inverse for one token.
func EncodeToken(t string) string {
	t = strings.ReplaceAll(t, "~", "~0")
	return strings.ReplaceAll(t, "/", "~1")
}

func JoinPointer(toks []string) string {
	var sb strings.Builder
	for _, t := range toks {
		sb.WriteByte('/')
		sb.WriteString(EncodeToken(t))
	}
	return sb.String()
}

type tokClass int

const (
	tokName     tokClass = iota // not index-like at all
	tokIndex                    // canonical non-negative index
	tokNeg                      // canonical negative index -1, -2, ...
	tokDash                     // "-"
	tokNonCanon                 // accepted by an integer parser but not canonical: +1, 01, -0, huge
)

func classify(t string) (tokClass, int) {
	if t == "-" {
		return tokDash, 0
	}
	s := t
	neg := false
	if strings.HasPrefix(s, "-") {
		neg = true
		s = s[1:]
	} else if strings.HasPrefix(s, "+") {
		s = s[1:]
		if allDigits(s) {
			return tokNonCanon, 0
		}
		return tokName, 0
	}
	if !allDigits(s) {
		return tokName, 0
	}
	if (len(s) > 1 && s[0] == '0') || (neg && s == "0") {
		return tokNonCanon, 0
	}
	if len(s) > 9 {
		// canonical but far beyond any array this harness builds: simply out of range
		if neg {
			return tokNeg, -(1 << 40)
		}
		return tokIndex, 1 << 40
	}
	n := 0
	for _, c := range s {
		n = n*10 + int(c-'0')
	}
	if neg {
		return tokNeg, -n
	}
	return tokIndex, n
}

func allDigits(s string) bool {
	if s == "" {
		return false
	}
	for _, c := range s {
		if c < '0' || c > '9' {
			return false
		}
	}
	return true
}

// ---- evaluator ----

type eval struct {
	o   Options
	doc *rj.Value
}

func isContainer(v *rj.Value) bool { return v.K == rj.Arr || v.K == rj.Obj }

// existing index for get/remove/replace/test: 0<=i<n or -n<=i<=-1 (negatives on).
func (e *eval) elemIndex(arr *rj.Value, t string) int {
	n := len(arr.A)
	switch c, i := classify(t); c {
	case tokIndex:
		if i >= n {
			panic(failure{c: IndexOutOfRange})
		}
		return i
	case tokNeg:
		if !e.o.Neg {
			panic(failure{c: NegativeOff})
		}
		if i < -n {
			panic(failure{c: IndexOutOfRange})
		}
		return i + n
	case tokNonCanon:
		panic(dontCare{"non-canonical index spelling " + t})
	}
	panic(failure{c: BadIndexToken})
}

// walkParent resolves all tokens but the last.
func (e *eval) walkParent(toks []string) *rj.Value {
	cur := e.doc
	for _, t := range toks[:len(toks)-1] {
		cur = e.child(cur, t)
	}
	return cur
}

func (e *eval) child(cur *rj.Value, t string) *rj.Value {
	var next *rj.Value
	switch cur.K {
	case rj.Obj:
		v, ok := cur.Get(t)
		if !ok {
			panic(failure{c: ParentUnreachable})
		}
		next = v
	case rj.Arr:
		func() {
			defer func() {
				if r := recover(); r != nil {
					if f, ok := r.(failure); ok {
						if f.c == NegativeOff {
							panic(failure{c: NegativeOff, alt: ParentUnreachable})
						}
						panic(failure{c: ParentUnreachable})
					}
					panic(r)
				}
			}()
			next = cur.A[e.elemIndex(cur, t)]
		}()
	default:
		panic(failure{c: ParentUnreachable})
	}
	if !isContainer(next) {
		panic(failure{c: ParentUnreachable})
	}
	return next
}

func (e *eval) toks(p string) []string {
	toks, ok := SplitPointer(p)
	if !ok {
		panic(dontCare{"pointer outside RFC 6901 domain: " + p})
	}
	return toks
}

// get returns the value at pointer p for move/copy sources.
func (e *eval) get(p string) (parent *rj.Value, last string, v *rj.Value) {
	toks := e.toks(p)
	if len(toks) == 0 {
		return nil, "", e.doc
	}
	parent = e.walkParent(toks)
	last = toks[len(toks)-1]
	switch parent.K {
	case rj.Obj:
		x, ok := parent.Get(last)
		if !ok {
			panic(failure{c: AbsentMember})
		}
		return parent, last, x
	default:
		return parent, last, parent.A[e.elemIndex(parent, last)]
	}
}

func (e *eval) addAt(parent *rj.Value, last string, v *rj.Value) {
	switch parent.K {
	case rj.Obj:
		if i := parent.Index(last); i >= 0 {
			parent.O[i].V = v
		} else {
			parent.O = append(parent.O, rj.Member{Name: last, V: v})
		}
	default:
		n := len(parent.A)
		var pos int
		switch c, i := classify(last); c {
		case tokDash:
			pos = n
		case tokIndex:
			if i > n {
				panic(failure{c: IndexOutOfRange})
			}
			pos = i
		case tokNeg:
			if !e.o.Neg {
				panic(failure{c: NegativeOff})
			}
			if i < -(n + 1) {
				panic(failure{c: IndexOutOfRange})
			}
			pos = n + 1 + i
		case tokNonCanon:
			panic(dontCare{"non-canonical index spelling " + last})
		default:
			panic(failure{c: BadIndexToken})
		}
		parent.A = append(parent.A, nil)
		copy(parent.A[pos+1:], parent.A[pos:])
		parent.A[pos] = v
	}
}

func (e *eval) removeAt(parent *rj.Value, last string) {
	switch parent.K {
	case rj.Obj:
		i := parent.Index(last)
		if i < 0 {
			panic(failure{c: AbsentMember})
		}
		parent.O = append(parent.O[:i:i], parent.O[i+1:]...)
	default:
		i := e.elemIndex(parent, last)
		parent.A = append(parent.A[:i:i], parent.A[i+1:]...)
	}
}

// ensure creates the missing parents of an add path (EnsurePathExistsOnAdd).
func (e *eval) ensure(toks []string) {
	cur := e.doc
	for k := 0; k < len(toks)-1; k++ {
		t := toks[k]
		nextTok := toks[k+1]
		mk := func() *rj.Value {
			switch c, i := classify(nextTok); c {
			case tokIndex:
				a := rj.NewArr()
				for j := 0; j < i; j++ {
					a.A = append(a.A, rj.NewNull())
				}
				return a
			case tokDash:
				if k+1 != len(toks)-1 {
					panic(dontCare{"'-' before the last token under EnsurePathExistsOnAdd"})
				}
				return rj.NewArr()
			case tokNeg, tokNonCanon:
				panic(dontCare{"negative or non-canonical index under EnsurePathExistsOnAdd"})
			}
			return rj.NewObj()
		}
		switch cur.K {
		case rj.Obj:
			v, ok := cur.Get(t)
			if !ok {
				v = mk()
				cur.O = append(cur.O, rj.Member{Name: t, V: v})
			} else if !isContainer(v) {
				panic(dontCare{"null or scalar on the path under EnsurePathExistsOnAdd"})
			}
			cur = v
		case rj.Arr:
			c, i := classify(t)
			switch c {
			case tokIndex:
			case tokDash:
				panic(dontCare{"'-' before the last token under EnsurePathExistsOnAdd"})
			case tokNeg, tokNonCanon:
				panic(dontCare{"negative or non-canonical index under EnsurePathExistsOnAdd"})
			default:
				return // plain add will fail on this token
			}
			if i < len(cur.A) {
				if !isContainer(cur.A[i]) {
					panic(dontCare{"null or scalar on the path under EnsurePathExistsOnAdd"})
				}
				cur = cur.A[i]
				continue
			}
			v := mk()
			for len(cur.A) < i {
				cur.A = append(cur.A, rj.NewNull())
			}
			cur.A = append(cur.A, v)
			cur = v
		default:
			return
		}
	}
}

// Size range of a copied value as spelled in the output.
func sizeRange(v *rj.Value, esc bool) (lo, hi int64) {
	if v.K == rj.Null {
		return 0, 4
	}
	a := int64(len(rj.Compact(v, rj.PrintOpts{EscapeHTML: esc, KeepLits: true, KeepNameLits: true})))
	b := int64(len(rj.Compact(v, rj.PrintOpts{EscapeHTML: esc, KeepLits: true, KeepNameLits: false})))
	if a > b {
		a, b = b, a
	}
	// a null nested inside the copied value is always spelled "null"
	return a, b
}

// Apply evaluates ops on a deep copy of doc.
func Apply(doc *rj.Value, ops []Op, o Options) (res Result) {
	e := &eval{o: o, doc: rj.Clone(doc)}
	res.FailAt = -1
	res.DCAt = -1
	if !isContainer(doc) {
		res.DontCare, res.DCAt = "root is not an object or array", 0
		return
	}
	if rj.HasDup(doc) {
		res.DontCare, res.DCAt = "duplicate member names in the document", 0
		return
	}
	for i := range ops {
		if ops[i].HasValue && ops[i].Value != nil && rj.HasDup(ops[i].Value) {
			res.DontCare, res.DCAt = "duplicate member names in an operation value", i
			return
		}
	}
	for i := range ops {
		stop := false
		func() {
			defer func() {
				if r := recover(); r != nil {
					switch x := r.(type) {
					case dontCare:
						res.DontCare, res.DCAt = x.why, i
					case failure:
						res.FailAt, res.Cause, res.AltCause = i, x.c, x.alt
					default:
						panic(r)
					}
					stop = true
				}
			}()
			e.step(i, &ops[i], &res)
		}()
		if stop {
			res.Doc = nil
			return
		}
	}
	res.Doc = e.doc
	return
}

func (e *eval) step(i int, op *Op, res *Result) {
	switch op.Kind {
	case "add":
		if !op.HasValue {
			panic(dontCare{"add without value"})
		}
		toks := e.toks(op.Path)
		v := rj.Clone(op.Value)
		if len(toks) == 0 {
			e.setRoot(v)
			return
		}
		if e.o.Ensure {
			e.ensure(toks)
		}
		parent := e.walkParent(toks)
		e.addAt(parent, toks[len(toks)-1], v)
	case "replace":
		if !op.HasValue {
			panic(dontCare{"replace without value"})
		}
		toks := e.toks(op.Path)
		v := rj.Clone(op.Value)
		if len(toks) == 0 {
			e.setRoot(v)
			return
		}
		parent := e.walkParent(toks)
		last := toks[len(toks)-1]
		switch parent.K {
		case rj.Obj:
			k := parent.Index(last)
			if k < 0 {
				panic(failure{c: AbsentMember})
			}
			parent.O[k].V = v
		default:
			parent.A[e.elemIndex(parent, last)] = v
		}
	case "remove":
		toks := e.toks(op.Path)
		if len(toks) == 0 {
			panic(dontCare{"remove of the root"})
		}
		if !e.o.AllowMissing {
			e.removeAt(e.walkParent(toks), toks[len(toks)-1])
			return
		}
		skipped := false
		func() {
			defer func() {
				if r := recover(); r != nil {
					f, ok := r.(failure)
					if !ok {
						panic(r)
					}
					switch f.c {
					case ParentUnreachable, AbsentMember, IndexOutOfRange:
						if f.alt == NegativeOff || f.c == NegativeOff {
							panic(dontCare{"negative token with negatives off under AllowMissingPathOnRemove"})
						}
						skipped = true
					case NegativeOff:
						panic(dontCare{"negative token with negatives off under AllowMissingPathOnRemove"})
					default:
						panic(dontCare{"non-index last token on an array under AllowMissingPathOnRemove"})
					}
				}
			}()
			e.removeAt(e.walkParent(toks), toks[len(toks)-1])
		}()
		if skipped {
			res.Skipped = append(res.Skipped, i)
		}
	case "move":
		if op.From == "" {
			panic(failure{c: MoveFromRoot})
		}
		ftoks := e.toks(op.From)
		ptoks := e.toks(op.Path)
		parent, last, v := e.get(op.From)
		e.removeAt(parent, last)
		if len(ptoks) == 0 {
			panic(dontCare{"'' as destination of move"})
		}
		func() {
			defer func() {
				if r := recover(); r != nil {
					panic(r)
				}
			}()
			dst := e.walkParent(ptoks)
			e.addAt(dst, ptoks[len(ptoks)-1], v)
		}()
		if isProperPrefix(ftoks, ptoks) {
			// RFC 6902: "from" MUST NOT be a proper prefix of "path"; remove-then-add
			// can nevertheless succeed on arrays. The statement names both readings.
			panic(dontCare{"move into own child succeeding under remove-then-add"})
		}
	case "copy":
		ptoks := e.toks(op.Path)
		_, _, src := e.get(op.From)
		if len(ptoks) == 0 {
			panic(dontCare{"'' as destination of copy"})
		}
		v := rj.Clone(src)
		dst := e.walkParent(ptoks)
		lo, hi := sizeRange(v, e.o.EscapeHTML)
		res.TotLo += lo
		res.TotHi += hi
		res.CopyTotals = append(res.CopyTotals, [2]int64{res.TotLo, res.TotHi})
		if e.o.Limit > 0 && res.TotHi > e.o.Limit {
			if res.TotLo > e.o.Limit {
				// would the add have failed anyway? then either class is fine
				alt := None
				func() {
					defer func() {
						if r := recover(); r != nil {
							if f, ok := r.(failure); ok {
								alt = f.c
								return
							}
							panic(r)
						}
					}()
					probe := &eval{o: e.o, doc: rj.Clone(dst)}
					probe.addAt(probe.doc, ptoks[len(ptoks)-1], rj.NewNull())
				}()
				// An index problem at the destination has no error class of its own in the statement, and "exactly
				// when it is a copy that pushed the total over the limit" (C08) / "as soon as the total exceeds the
				// limit" (C12) speak for the limit: only a coinciding cause that the statement also names a class for
				// (an unreachable parent - reported above, before the total is formed) leaves the class open.
				if alt != AbsentMember && alt != ParentUnreachable {
					alt = None
				}
				panic(failure{c: CopyLimit, alt: alt})
			}
			res.LimitWindow = true
			panic(dontCare{"copy total within the null-size ambiguity window of the limit"})
		}
		e.addAt(dst, ptoks[len(ptoks)-1], v)
	case "test":
		if !op.HasValue {
			panic(dontCare{"test without value"})
		}
		toks := e.toks(op.Path)
		var cur *rj.Value
		if len(toks) == 0 {
			cur = e.doc
		} else {
			parent := e.walkParent(toks)
			last := toks[len(toks)-1]
			switch parent.K {
			case rj.Obj:
				x, ok := parent.Get(last)
				if !ok {
					x = rj.NewNull() // an absent member compares as null
				}
				cur = x
			default:
				cur = parent.A[e.elemIndex(parent, last)]
			}
		}
		if rj.Equal(cur, op.Value) {
			return
		}
		if rj.EqualNumeric(cur, op.Value) {
			panic(dontCare{"test of numerically equal numbers spelled differently"})
		}
		panic(failure{c: TestUnequal})
	default:
		panic(dontCare{"unknown operation " + op.Kind})
	}
}

func (e *eval) setRoot(v *rj.Value) {
	switch v.K {
	case rj.Obj, rj.Arr:
		e.doc = v
	case rj.Null:
		panic(dontCare{"root replaced by null"})
	default:
		panic(failure{c: RootNotContainer})
	}
}

func isProperPrefix(a, b []string) bool {
	if len(a) >= len(b) {
		return false
	}
	for i := range a {
		if a[i] != b[i] {
			return false
		}
	}
	return true
}

// Resolve looks a pointer up (non-negative canonical indices only, plus negatives
// when neg is set); used by oracles that need "the value is found at the path".
func Resolve(doc *rj.Value, p string, neg bool) (*rj.Value, bool) {
	toks, ok := SplitPointer(p)
	if !ok {
		return nil, false
	}
	cur := doc
	for _, t := range toks {
		switch cur.K {
		case rj.Obj:
			v, ok := cur.Get(t)
			if !ok {
				return nil, false
			}
			cur = v
		case rj.Arr:
			c, i := classify(t)
			if c == tokNeg && neg {
				i += len(cur.A)
			} else if c != tokIndex {
				return nil, false
			}
			if i < 0 || i >= len(cur.A) {
				return nil, false
			}
			cur = cur.A[i]
		default:
			return nil, false
		}
	}
	return cur, true
}

// ---- patch text ----

// OpText spells one operation as a JSON object (value with its source literals).
func OpText(op Op) string {
	var sb strings.Builder
	sb.WriteString(`{"op":`)
	sb.WriteString(rj.EncodeString(op.Kind, false))
	if op.Kind == "move" || op.Kind == "copy" {
		sb.WriteString(`,"from":`)
		sb.WriteString(rj.EncodeString(op.From, false))
	}
	sb.WriteString(`,"path":`)
	sb.WriteString(rj.EncodeString(op.Path, false))
	if op.HasValue {
		sb.WriteString(`,"value":`)
		sb.Write(rj.Compact(op.Value, rj.PrintOpts{KeepLits: true, KeepNameLits: true}))
	}
	sb.WriteString("}")
	return sb.String()
}

func PatchText(ops []Op) string {
	parts := make([]string, len(ops))
	for i, op := range ops {
		parts[i] = OpText(op)
	}
	return "[" + strings.Join(parts, ",") + "]"
}

func (op Op) String() string {
	switch op.Kind {
	case "move", "copy":
		return fmt.Sprintf("%s %s->%s", op.Kind, op.From, op.Path)
	case "remove":
		return fmt.Sprintf("remove %s", op.Path)
	}
	if op.HasValue {
		return fmt.Sprintf("%s %s %s", op.Kind, op.Path, rj.Text(op.Value))
	}
	return fmt.Sprintf("%s %s", op.Kind, op.Path)
}
