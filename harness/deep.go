package main

import (
	"bytes"
	"fmt"
	"strings"

	zj "github.com/evanphx/json-patch/v5/zzverifjson"

	"verif.local/h/core"
	"verif.local/h/impl"
	rj "verif.local/h/refjson"
)

// nesting: 9 999 / 10 000 levels must be accepted, 10 001 rejected — by the
// codec functions and by every public entry point (which must not panic or
// overflow the stack either).
func deepTexts(tier string) map[string][]byte {
	out := map[string][]byte{}
	depths := []int{10000, 10001}
	if tier == "thorough" {
		depths = []int{9999, 10000, 10001}
	}
	for _, n := range depths {
		out[fmt.Sprintf("array-%d", n)] = []byte(strings.Repeat("[", n) + strings.Repeat("]", n))
		out[fmt.Sprintf("object-%d", n)] = []byte(strings.Repeat(`{"a":`, n-1) + "{}" + strings.Repeat("}", n-1))
		var sb, se strings.Builder
		for i := 0; i < n-1; i++ {
			if i%2 == 0 {
				sb.WriteString(`[`)
				se.WriteString(`]`)
			} else {
				sb.WriteString(`{"k":`)
				se.WriteString(`}`)
			}
		}
		end := []byte(se.String())
		for i, j := 0, len(end)-1; i < j; i, j = i+1, j-1 {
			end[i], end[j] = end[j], end[i]
		}
		if tier == "thorough" {
			out[fmt.Sprintf("mixed-%d", n)] = []byte(sb.String() + "[]" + string(end))
		}
	}
	return out
}

func runDeep(ctx *core.Ctx, id, tier string, entryPoints, codec bool) {
	m := &mergeRun{id: id, ctx: ctx}
	type job struct {
		fn   string
		call func() impl.R
		post func(fn string, r impl.R)
	}
	var jobs []job
	for name, t := range deepTexts(tier) {
		name, t := name, t
		want := !strings.HasSuffix(name, "10001")
		if rj.Valid(t) != want {
			panic("harness bug: reference nesting limit")
		}
		short := fmt.Sprintf("<%s: %d bytes>", name, len(t))
		if codec {
			func() {
				defer func() {
					if r := recover(); r != nil {
						m.viol("codec-panics", "codec-panics:deep", fmt.Sprintf("codec function panics on %s: %v", short, r), "codec", short, "")
					}
				}()
				for fn, got := range codecAccepts(t) {
					if got != want {
						m.viol("nesting-limit", "nesting-limit:"+fn, fmt.Sprintf("%s on %s: accepted=%v, expected %v", fn, short, got, want), "codec:"+fn, short, "")
					}
					ctx.Count("deep_codec_checks", 1)
				}
				var b bytes.Buffer
				zj.HTMLEscape(&b, t)
			}()
		}
		if !entryPoints {
			continue
		}
		for _, legacy := range []bool{false, true} {
			if legacy && id != "C04" {
				continue
			}
			mm := &mergeRun{id: id, legacy: legacy, ctx: ctx}
			ts := string(t)
			calls := map[string]func() impl.R{
				"Equal":             func() impl.R { return mm.Equal(ts, ts) },
				"MergePatch-doc":    func() impl.R { return mm.MergePatch(ts, `{}`) },
				"MergePatch-patch":  func() impl.R { return mm.MergePatch(`{}`, ts) },
				"MergeMergePatches": func() impl.R { return mm.MergeMerge(ts, ts) },
				"CreateMergePatch":  func() impl.R { return mm.Create(ts, ts) },
				"Apply": func() impl.R {
					c := impl.Call{Doc: t, Patch: []byte(`[]`), Opt: defaultOpt}
					var o impl.Obs
					if legacy {
						o = impl.V4Apply(c)
					} else {
						o = impl.V5Apply(c)
					}
					return impl.R{Out: o.Out, Err: o.Err, Panic: o.Panic}
				},
				"DecodePatch": func() impl.R {
					c := impl.Call{Doc: []byte(`{}`), Patch: t, Opt: defaultOpt}
					var o impl.Obs
					if legacy {
						o = impl.V4Apply(c)
					} else {
						o = impl.V5Apply(c)
					}
					return impl.R{Out: o.Out, Err: o.Err + o.DecodeErr, Panic: o.Panic}
				},
			}
			legacy := legacy
			post := func(fn string, r impl.R) {
				ctx.Count("deep_entry_point_calls", 1)
				if r.Panic != "" {
					m.viol("panic", panicKey(r), fmt.Sprintf("%s on %s panics: %s", fn, short, r.Panic), fn, short, "")
					return
				}
				if legacy || id == "C04" {
					return
				}
				rejected := r.Err != ""
				if fn == "Equal" {
					rejected = !r.Bool
				}
				if !want && !rejected {
					m.viol("accepts-too-deep", "accepts-too-deep:"+fn, fmt.Sprintf("%s accepted %s", fn, short), fn, short, "")
				}
				if want && rejected && fn != "DecodePatch" && !(fn == "CreateMergePatch" && !strings.HasPrefix(name, "object")) && !(fn == "MergeMergePatches" && !strings.HasPrefix(name, "object")) {
					m.viol("rejects-well-formed-deep", "rejects-well-formed-deep:"+fn, fmt.Sprintf("%s rejected %s: %s", fn, short, r.Err), fn, short, "")
				}
			}
			for fn, call := range calls {
				jobs = append(jobs, job{fn, call, post})
			}
		}
	}
	ctx.Parallel(len(jobs), func(w *core.Worker, i int) {
		j := jobs[i]
		w.Tick(func() string { return "deep nesting: " + j.fn })
		j.post(j.fn, j.call())
	})
	ctx.Sample(map[string]interface{}{"deep_nesting": "arrays, objects and mixed nesting at 9999 / 10000 / 10001 levels into the codec functions and every entry point"}, 12)
}

var _ = core.J
