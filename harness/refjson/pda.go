package refjson

// PDA is an explicit byte-at-a-time pushdown recogniser for RFC 8259, written
// independently of the recursive-descent parser above (the two are cross-checked
// on all short strings). It is the reference side of the scanner product.

type ctl uint8

const (
	cBeginValue        ctl = iota // expects a value (whitespace allowed)
	cBeginValueOrClose            // just after '[': value or ']'
	cBeginKeyOrClose              // just after '{': key string or '}'
	cBeginKey                     // after ',' in an object
	cAfterKey                     // after a key string: expects ':'
	cEndValue                     // after a value: ',' / closer / whitespace
	cStr
	cStrEsc
	cStrU1
	cStrU2
	cStrU3
	cStrU4
	cKey
	cKeyEsc
	cKeyU1
	cKeyU2
	cKeyU3
	cKeyU4
	cNeg
	cZero
	cInt
	cDot
	cFrac
	cExp
	cExpSign
	cExpDig
	cT
	cTr
	cTru
	cF
	cFa
	cFal
	cFals
	cN
	cNu
	cNul
	cDead
)

type PDA struct {
	c     ctl
	stack []byte // '[' or '{'
	Max   int    // nesting limit
}

func NewPDA() *PDA { return &PDA{c: cBeginValue, Max: MaxDepth} }

func (p *PDA) Clone() *PDA {
	return &PDA{c: p.c, stack: append([]byte(nil), p.stack...), Max: p.Max}
}

func (p *PDA) Dead() bool  { return p.c == cDead }
func (p *PDA) Depth() int  { return len(p.stack) }
func (p *PDA) Key() string { return string(rune('A'+p.c)) + string(p.stack) }

// Accepts: is the input so far a complete JSON text?
func (p *PDA) Accepts() bool {
	if len(p.stack) != 0 {
		return false
	}
	switch p.c {
	case cEndValue, cZero, cInt, cFrac, cExpDig:
		return true
	}
	return false
}

func ws(b byte) bool  { return b == ' ' || b == '\t' || b == '\n' || b == '\r' }
func dig(b byte) bool { return b >= '0' && b <= '9' }
func hx(b byte) bool {
	return dig(b) || (b >= 'a' && b <= 'f') || (b >= 'A' && b <= 'F')
}

func (p *PDA) push(b byte) bool {
	p.stack = append(p.stack, b)
	return len(p.stack) <= p.Max
}

func (p *PDA) beginValue(b byte) {
	switch {
	case b == '{':
		if !p.push('{') {
			p.c = cDead
			return
		}
		p.c = cBeginKeyOrClose
	case b == '[':
		if !p.push('[') {
			p.c = cDead
			return
		}
		p.c = cBeginValueOrClose
	case b == '"':
		p.c = cStr
	case b == '-':
		p.c = cNeg
	case b == '0':
		p.c = cZero
	case b >= '1' && b <= '9':
		p.c = cInt
	case b == 't':
		p.c = cT
	case b == 'f':
		p.c = cF
	case b == 'n':
		p.c = cN
	default:
		p.c = cDead
	}
}

func (p *PDA) endValue(b byte) {
	if ws(b) {
		p.c = cEndValue
		return
	}
	if len(p.stack) == 0 {
		p.c = cDead
		return
	}
	top := p.stack[len(p.stack)-1]
	switch {
	case top == '[' && b == ',':
		p.c = cBeginValue
	case top == '[' && b == ']', top == '{' && b == '}':
		p.stack = p.stack[:len(p.stack)-1]
		p.c = cEndValue
	case top == '{' && b == ',':
		p.c = cBeginKey
	default:
		p.c = cDead
	}
}

func (p *PDA) lit(b, want byte, next ctl) {
	if b == want {
		p.c = next
	} else {
		p.c = cDead
	}
}

// Step consumes one byte.
func (p *PDA) Step(b byte) {
	switch p.c {
	case cDead:
	case cBeginValue:
		if !ws(b) {
			p.beginValue(b)
		}
	case cBeginValueOrClose:
		if ws(b) {
			return
		}
		if b == ']' {
			p.stack = p.stack[:len(p.stack)-1]
			p.c = cEndValue
			return
		}
		p.beginValue(b)
	case cBeginKeyOrClose:
		switch {
		case ws(b):
		case b == '}':
			p.stack = p.stack[:len(p.stack)-1]
			p.c = cEndValue
		case b == '"':
			p.c = cKey
		default:
			p.c = cDead
		}
	case cBeginKey:
		switch {
		case ws(b):
		case b == '"':
			p.c = cKey
		default:
			p.c = cDead
		}
	case cAfterKey:
		switch {
		case ws(b):
		case b == ':':
			p.c = cBeginValue
		default:
			p.c = cDead
		}
	case cEndValue:
		p.endValue(b)
	case cStr, cKey:
		switch {
		case b == '"':
			if p.c == cStr {
				p.c = cEndValue
			} else {
				p.c = cAfterKey
			}
		case b == '\\':
			p.c++ // -> Esc
		case b < 0x20:
			p.c = cDead
		}
	case cStrEsc, cKeyEsc:
		switch b {
		case '"', '\\', '/', 'b', 'f', 'n', 'r', 't':
			p.c-- // back to the string
		case 'u':
			p.c++ // -> U1
		default:
			p.c = cDead
		}
	case cStrU1, cStrU2, cStrU3, cKeyU1, cKeyU2, cKeyU3:
		if hx(b) {
			p.c++
		} else {
			p.c = cDead
		}
	case cStrU4:
		if hx(b) {
			p.c = cStr
		} else {
			p.c = cDead
		}
	case cKeyU4:
		if hx(b) {
			p.c = cKey
		} else {
			p.c = cDead
		}
	case cNeg:
		switch {
		case b == '0':
			p.c = cZero
		case b >= '1' && b <= '9':
			p.c = cInt
		default:
			p.c = cDead
		}
	case cZero:
		switch {
		case b == '.':
			p.c = cDot
		case b == 'e' || b == 'E':
			p.c = cExp
		default:
			p.endValue(b)
		}
	case cInt:
		switch {
		case dig(b):
		case b == '.':
			p.c = cDot
		case b == 'e' || b == 'E':
			p.c = cExp
		default:
			p.endValue(b)
		}
	case cDot:
		if dig(b) {
			p.c = cFrac
		} else {
			p.c = cDead
		}
	case cFrac:
		switch {
		case dig(b):
		case b == 'e' || b == 'E':
			p.c = cExp
		default:
			p.endValue(b)
		}
	case cExp:
		switch {
		case b == '+' || b == '-':
			p.c = cExpSign
		case dig(b):
			p.c = cExpDig
		default:
			p.c = cDead
		}
	case cExpSign:
		if dig(b) {
			p.c = cExpDig
		} else {
			p.c = cDead
		}
	case cExpDig:
		if !dig(b) {
			p.endValue(b)
		}
	case cT:
		p.lit(b, 'r', cTr)
	case cTr:
		p.lit(b, 'u', cTru)
	case cTru:
		p.lit(b, 'e', cEndValue)
	case cF:
		p.lit(b, 'a', cFa)
	case cFa:
		p.lit(b, 'l', cFal)
	case cFal:
		p.lit(b, 's', cFals)
	case cFals:
		p.lit(b, 'e', cEndValue)
	case cN:
		p.lit(b, 'u', cNu)
	case cNu:
		p.lit(b, 'l', cNul)
	case cNul:
		p.lit(b, 'l', cEndValue)
	}
}

// PDAValid runs the recogniser over a whole text.
func PDAValid(b []byte) bool {
	p := NewPDA()
	for _, c := range b {
		p.Step(c)
		if p.Dead() {
			return false
		}
	}
	return p.Accepts()
}
