// Package refjson is an independent, strict RFC 8259 reader used as the oracle's
// eyes. It uses neither encoding/json nor the library's fork. Objects keep member
// order, numbers keep their literal text, strings keep both their source literal
// and their decoded value.
package refjson

import (
	"errors"
	"fmt"
	"sort"
	"strings"
	"unicode/utf8"
)

type Kind uint8

const (
	Null Kind = iota
	Bool
	Num
	Str
	Arr
	Obj
)

func (k Kind) String() string {
	return [...]string{"null", "bool", "number", "string", "array", "object"}[k]
}

// Value is a JSON value tree.
type Value struct {
	K   Kind
	B   bool
	Lit string // Num: literal text; Str: source literal incl. quotes ("" when synthesised)
	S   string // Str: decoded value (ill-formed sequences read as U+FFFD, as Go does)
	A   []*Value
	O   []Member
}

type Member struct {
	Name    string // decoded
	NameLit string // source literal incl. quotes ("" when synthesised)
	V       *Value
}

// MaxDepth is the nesting limit of the grammar as the library documents it.
const MaxDepth = 10000

type parser struct {
	b     []byte
	i     int
	depth int
	max   int
}

var ErrSyntax = errors.New("refjson: syntax error")

func serr(p *parser, what string) error {
	return fmt.Errorf("%w at %d: %s", ErrSyntax, p.i, what)
}

// Parse reads exactly one JSON text (surrounding whitespace allowed).
func Parse(b []byte) (*Value, error) { return ParseDepth(b, MaxDepth) }

func ParseDepth(b []byte, max int) (*Value, error) {
	p := &parser{b: b, max: max}
	p.ws()
	v, err := p.value()
	if err != nil {
		return nil, err
	}
	p.ws()
	if p.i != len(p.b) {
		return nil, serr(p, "trailing data")
	}
	return v, nil
}

func Valid(b []byte) bool { _, err := Parse(b); return err == nil }

// MustParse is for literals in the harness itself.
func MustParse(s string) *Value {
	v, err := Parse([]byte(s))
	if err != nil {
		panic(fmt.Sprintf("refjson.MustParse(%q): %v", s, err))
	}
	return v
}

func (p *parser) ws() {
	for p.i < len(p.b) {
		switch p.b[p.i] {
		case ' ', '\t', '\n', '\r':
			p.i++
		default:
			return
		}
	}
}

func (p *parser) value() (*Value, error) {
	if p.i >= len(p.b) {
		return nil, serr(p, "unexpected end")
	}
	switch c := p.b[p.i]; {
	case c == '{':
		return p.object()
	case c == '[':
		return p.array()
	case c == '"':
		lit, s, err := p.str()
		if err != nil {
			return nil, err
		}
		return &Value{K: Str, Lit: lit, S: s}, nil
	case c == '-' || (c >= '0' && c <= '9'):
		return p.number()
	case c == 't':
		return p.lit("true", &Value{K: Bool, B: true})
	case c == 'f':
		return p.lit("false", &Value{K: Bool, B: false})
	case c == 'n':
		return p.lit("null", &Value{K: Null})
	}
	return nil, serr(p, "unexpected byte")
}

func (p *parser) lit(word string, v *Value) (*Value, error) {
	if p.i+len(word) > len(p.b) || string(p.b[p.i:p.i+len(word)]) != word {
		return nil, serr(p, "bad literal")
	}
	p.i += len(word)
	return v, nil
}

func (p *parser) number() (*Value, error) {
	st := p.i
	if p.b[p.i] == '-' {
		p.i++
	}
	if p.i >= len(p.b) {
		return nil, serr(p, "number")
	}
	switch c := p.b[p.i]; {
	case c == '0':
		p.i++
	case c >= '1' && c <= '9':
		for p.i < len(p.b) && p.b[p.i] >= '0' && p.b[p.i] <= '9' {
			p.i++
		}
	default:
		return nil, serr(p, "number")
	}
	if p.i < len(p.b) && p.b[p.i] == '.' {
		p.i++
		n := 0
		for p.i < len(p.b) && p.b[p.i] >= '0' && p.b[p.i] <= '9' {
			p.i++
			n++
		}
		if n == 0 {
			return nil, serr(p, "fraction")
		}
	}
	if p.i < len(p.b) && (p.b[p.i] == 'e' || p.b[p.i] == 'E') {
		p.i++
		if p.i < len(p.b) && (p.b[p.i] == '+' || p.b[p.i] == '-') {
			p.i++
		}
		n := 0
		for p.i < len(p.b) && p.b[p.i] >= '0' && p.b[p.i] <= '9' {
			p.i++
			n++
		}
		if n == 0 {
			return nil, serr(p, "exponent")
		}
	}
	return &Value{K: Num, Lit: string(p.b[st:p.i])}, nil
}

func hexv(c byte) int {
	switch {
	case c >= '0' && c <= '9':
		return int(c - '0')
	case c >= 'a' && c <= 'f':
		return int(c-'a') + 10
	case c >= 'A' && c <= 'F':
		return int(c-'A') + 10
	}
	return -1
}

// str reads a string literal; returns the source literal and the decoded value.
// Bytes >= 0x80 are accepted as string characters without UTF-8 validation (the
// grammar is applied to bytes, as encoding/json does); when decoding, ill-formed
// UTF-8 and lone surrogate escapes become U+FFFD.
func (p *parser) str() (string, string, error) {
	st := p.i
	p.i++ // opening quote
	var sb strings.Builder
	for {
		if p.i >= len(p.b) {
			return "", "", serr(p, "unterminated string")
		}
		c := p.b[p.i]
		switch {
		case c == '"':
			p.i++
			return string(p.b[st:p.i]), sb.String(), nil
		case c < 0x20:
			return "", "", serr(p, "control character in string")
		case c == '\\':
			p.i++
			if p.i >= len(p.b) {
				return "", "", serr(p, "unterminated escape")
			}
			e := p.b[p.i]
			p.i++
			switch e {
			case '"', '\\', '/':
				sb.WriteByte(e)
			case 'b':
				sb.WriteByte('\b')
			case 'f':
				sb.WriteByte('\f')
			case 'n':
				sb.WriteByte('\n')
			case 'r':
				sb.WriteByte('\r')
			case 't':
				sb.WriteByte('\t')
			case 'u':
				r, ok := p.hex4()
				if !ok {
					return "", "", serr(p, "bad \\u escape")
				}
				if r >= 0xD800 && r < 0xDC00 {
					// high surrogate: a following \uDC00-\uDFFF completes a pair
					save := p.i
					if p.i+1 < len(p.b) && p.b[p.i] == '\\' && p.b[p.i+1] == 'u' {
						p.i += 2
						r2, ok2 := p.hex4()
						if !ok2 {
							return "", "", serr(p, "bad \\u escape")
						}
						if r2 >= 0xDC00 && r2 < 0xE000 {
							sb.WriteRune(0x10000 + (r-0xD800)<<10 + (r2 - 0xDC00))
							continue
						}
						p.i = save // second escape is read again on its own
					}
					sb.WriteRune(utf8.RuneError)
				} else if r >= 0xDC00 && r < 0xE000 {
					sb.WriteRune(utf8.RuneError)
				} else {
					sb.WriteRune(r)
				}
			default:
				return "", "", serr(p, "bad escape")
			}
		case c < utf8.RuneSelf:
			sb.WriteByte(c)
			p.i++
		default:
			r, sz := utf8.DecodeRune(p.b[p.i:])
			if r == utf8.RuneError && sz == 1 {
				sb.WriteRune(utf8.RuneError)
			} else {
				sb.WriteRune(r)
			}
			p.i += sz
		}
	}
}

func (p *parser) hex4() (rune, bool) {
	if p.i+4 > len(p.b) {
		return 0, false
	}
	var r rune
	for k := 0; k < 4; k++ {
		h := hexv(p.b[p.i+k])
		if h < 0 {
			return 0, false
		}
		r = r<<4 | rune(h)
	}
	p.i += 4
	return r, true
}

func (p *parser) array() (*Value, error) {
	p.depth++
	if p.depth > p.max {
		return nil, serr(p, "nesting too deep")
	}
	defer func() { p.depth-- }()
	p.i++
	v := &Value{K: Arr, A: []*Value{}}
	p.ws()
	if p.i < len(p.b) && p.b[p.i] == ']' {
		p.i++
		return v, nil
	}
	for {
		p.ws()
		e, err := p.value()
		if err != nil {
			return nil, err
		}
		v.A = append(v.A, e)
		p.ws()
		if p.i >= len(p.b) {
			return nil, serr(p, "unterminated array")
		}
		if p.b[p.i] == ',' {
			p.i++
			continue
		}
		if p.b[p.i] == ']' {
			p.i++
			return v, nil
		}
		return nil, serr(p, "expected , or ]")
	}
}

func (p *parser) object() (*Value, error) {
	p.depth++
	if p.depth > p.max {
		return nil, serr(p, "nesting too deep")
	}
	defer func() { p.depth-- }()
	p.i++
	v := &Value{K: Obj, O: []Member{}}
	p.ws()
	if p.i < len(p.b) && p.b[p.i] == '}' {
		p.i++
		return v, nil
	}
	for {
		p.ws()
		if p.i >= len(p.b) || p.b[p.i] != '"' {
			return nil, serr(p, "expected member name")
		}
		lit, name, err := p.str()
		if err != nil {
			return nil, err
		}
		p.ws()
		if p.i >= len(p.b) || p.b[p.i] != ':' {
			return nil, serr(p, "expected :")
		}
		p.i++
		p.ws()
		e, err := p.value()
		if err != nil {
			return nil, err
		}
		v.O = append(v.O, Member{Name: name, NameLit: lit, V: e})
		p.ws()
		if p.i >= len(p.b) {
			return nil, serr(p, "unterminated object")
		}
		if p.b[p.i] == ',' {
			p.i++
			continue
		}
		if p.b[p.i] == '}' {
			p.i++
			return v, nil
		}
		return nil, serr(p, "expected , or }")
	}
}

// ---- constructors ----

func NewNull() *Value          { return &Value{K: Null} }
func NewBool(b bool) *Value    { return &Value{K: Bool, B: b} }
func NewNum(lit string) *Value { return &Value{K: Num, Lit: lit} }
func NewStr(s string) *Value   { return &Value{K: Str, S: s} }
func NewArr(e ...*Value) *Value {
	if e == nil {
		e = []*Value{}
	}
	return &Value{K: Arr, A: e}
}
func NewObj(m ...Member) *Value {
	if m == nil {
		m = []Member{}
	}
	return &Value{K: Obj, O: m}
}

// ---- queries ----

func (v *Value) Get(name string) (*Value, bool) {
	for i := range v.O {
		if v.O[i].Name == name {
			return v.O[i].V, true
		}
	}
	return nil, false
}

func (v *Value) Index(name string) int {
	for i := range v.O {
		if v.O[i].Name == name {
			return i
		}
	}
	return -1
}

// HasDup reports a duplicate member name anywhere in the tree.
func HasDup(v *Value) bool {
	switch v.K {
	case Arr:
		for _, e := range v.A {
			if HasDup(e) {
				return true
			}
		}
	case Obj:
		seen := map[string]bool{}
		for _, m := range v.O {
			if seen[m.Name] || HasDup(m.V) {
				return true
			}
			seen[m.Name] = true
		}
	}
	return false
}

// HasNullMember reports an object member whose value is null, anywhere.
func HasNullMember(v *Value) bool {
	switch v.K {
	case Arr:
		for _, e := range v.A {
			if HasNullMember(e) {
				return true
			}
		}
	case Obj:
		for _, m := range v.O {
			if m.V.K == Null || HasNullMember(m.V) {
				return true
			}
		}
	}
	return false
}

// Nodes counts values in the tree.
func Nodes(v *Value) int {
	n := 1
	for _, e := range v.A {
		n += Nodes(e)
	}
	for _, m := range v.O {
		n += Nodes(m.V)
	}
	return n
}

func Depth(v *Value) int {
	d := 0
	for _, e := range v.A {
		if x := Depth(e); x > d {
			d = x
		}
	}
	for _, m := range v.O {
		if x := Depth(m.V); x > d {
			d = x
		}
	}
	if v.K == Arr || v.K == Obj {
		return d + 1
	}
	return 0
}

// Clone is a deep copy.
func Clone(v *Value) *Value {
	if v == nil {
		return nil
	}
	c := *v
	if v.A != nil {
		c.A = make([]*Value, len(v.A))
		for i, e := range v.A {
			c.A[i] = Clone(e)
		}
	}
	if v.O != nil {
		c.O = make([]Member, len(v.O))
		for i, m := range v.O {
			c.O[i] = Member{Name: m.Name, NameLit: m.NameLit, V: Clone(m.V)}
		}
	}
	return &c
}

// Equal is structural equality: same type; objects as member sets (order ignored);
// arrays in order; strings by decoded value; numbers by literal text.
func Equal(a, b *Value) bool { return eq(a, b, false, false) }

// EqualOrdered additionally requires the same member order.
func EqualOrdered(a, b *Value) bool { return eq(a, b, true, false) }

// EqualNumeric is Equal except that numbers are compared after a canonical
// normalisation of the literal (used only to recognise "numerically equal but
// spelled differently", which several properties place outside their domain).
func EqualNumeric(a, b *Value) bool { return eq(a, b, false, true) }

func eq(a, b *Value, ordered, numeric bool) bool {
	if a.K != b.K {
		return false
	}
	switch a.K {
	case Null:
		return true
	case Bool:
		return a.B == b.B
	case Num:
		if numeric {
			return NormNum(a.Lit) == NormNum(b.Lit)
		}
		return a.Lit == b.Lit
	case Str:
		return a.S == b.S
	case Arr:
		if len(a.A) != len(b.A) {
			return false
		}
		for i := range a.A {
			if !eq(a.A[i], b.A[i], ordered, numeric) {
				return false
			}
		}
		return true
	case Obj:
		if len(a.O) != len(b.O) {
			return false
		}
		if ordered {
			for i := range a.O {
				if a.O[i].Name != b.O[i].Name || !eq(a.O[i].V, b.O[i].V, ordered, numeric) {
					return false
				}
			}
			return true
		}
		for i := range a.O {
			bv, ok := b.Get(a.O[i].Name)
			if !ok || !eq(a.O[i].V, bv, ordered, numeric) {
				return false
			}
		}
		return true
	}
	return false
}

// NormNum maps a JSON number literal to a canonical (sign, digits, exponent)
// text such that two literals denote the same real number iff the texts are equal.
func NormNum(lit string) string {
	s := lit
	neg := false
	if strings.HasPrefix(s, "-") {
		neg = true
		s = s[1:]
	}
	exp := 0
	if i := strings.IndexAny(s, "eE"); i >= 0 {
		e := s[i+1:]
		s = s[:i]
		sign := 1
		if strings.HasPrefix(e, "+") {
			e = e[1:]
		} else if strings.HasPrefix(e, "-") {
			sign = -1
			e = e[1:]
		}
		e = strings.TrimLeft(e, "0")
		if len(e) > 9 {
			e = e[:9] + "9" // saturate: enormous exponents stay distinct from small ones
		}
		n := 0
		for _, c := range e {
			n = n*10 + int(c-'0')
		}
		exp = sign * n
	}
	intp, frac := s, ""
	if i := strings.IndexByte(s, '.'); i >= 0 {
		intp, frac = s[:i], s[i+1:]
	}
	digits := intp + frac
	exp -= len(frac)
	digits = strings.TrimLeft(digits, "0")
	t := strings.TrimRight(digits, "0")
	exp += len(digits) - len(t)
	digits = t
	if digits == "" {
		return "0"
	}
	r := fmt.Sprintf("%se%d", digits, exp)
	if neg {
		r = "-" + r
	}
	return r
}

// Numbers lists every number literal in document order.
func Numbers(v *Value, out *[]string) {
	switch v.K {
	case Num:
		*out = append(*out, v.Lit)
	case Arr:
		for _, e := range v.A {
			Numbers(e, out)
		}
	case Obj:
		for _, m := range v.O {
			Numbers(m.V, out)
		}
	}
}

// ---- printing ----

const hexd = "0123456789abcdef"

// EncodeString spells s the way the library's encoder (a Go 1.19-era
// encoding/json) spells a Go string.
func EncodeString(s string, escapeHTML bool) string {
	var sb strings.Builder
	sb.WriteByte('"')
	for i := 0; i < len(s); {
		c := s[i]
		if c < utf8.RuneSelf {
			switch {
			case c == '"' || c == '\\':
				sb.WriteByte('\\')
				sb.WriteByte(c)
			case c == '\n':
				sb.WriteString(`\n`)
			case c == '\r':
				sb.WriteString(`\r`)
			case c == '\t':
				sb.WriteString(`\t`)
			case c < 0x20 || (escapeHTML && (c == '<' || c == '>' || c == '&')):
				sb.WriteString(`\u00`)
				sb.WriteByte(hexd[c>>4])
				sb.WriteByte(hexd[c&0xf])
			default:
				sb.WriteByte(c)
			}
			i++
			continue
		}
		r, sz := utf8.DecodeRuneInString(s[i:])
		if r == utf8.RuneError && sz == 1 {
			sb.WriteString("\\ufffd")
			i += sz
			continue
		}
		if r == 0x2028 || r == 0x2029 {
			sb.WriteString("\\u202")
			sb.WriteByte(hexd[r&0xf])
			i += sz
			continue
		}
		sb.WriteString(s[i : i+sz])
		i += sz
	}
	sb.WriteByte('"')
	return sb.String()
}

// EscapeLit applies the HTML-escaping transformation to a source literal: the
// five characters are re-spelled as \u escapes, nothing else changes.
func EscapeLit(lit string) string {
	var sb strings.Builder
	for i := 0; i < len(lit); i++ {
		c := lit[i]
		if c == '<' || c == '>' || c == '&' {
			sb.WriteString(`\u00`)
			sb.WriteByte(hexd[c>>4])
			sb.WriteByte(hexd[c&0xf])
			continue
		}
		if c == 0xE2 && i+2 < len(lit) && lit[i+1] == 0x80 && lit[i+2]&^1 == 0xA8 {
			sb.WriteString(`\u202`)
			sb.WriteByte(hexd[lit[i+2]&0xf])
			i += 2
			continue
		}
		sb.WriteByte(c)
	}
	return sb.String()
}

// PrintOpts selects a spelling.
type PrintOpts struct {
	EscapeHTML bool
	// KeepLits: strings and member names that carry a source literal are
	// printed with it (HTML-escaped if EscapeHTML); otherwise re-encoded.
	KeepLits bool
	// KeepNameLits applies KeepLits to member names (the library re-encodes the
	// names of every object it has parsed, but not of objects it kept raw).
	KeepNameLits bool
	SortKeys     bool
}

// Compact prints v without insignificant whitespace.
func Compact(v *Value, o PrintOpts) []byte {
	var sb strings.Builder
	write(&sb, v, o)
	return []byte(sb.String())
}

// Canon is the harness-wide canonical text: compact, names sorted, decoded strings
// re-encoded. Two values are Equal iff their Canon texts are equal.
func Canon(v *Value) string {
	return string(Compact(v, PrintOpts{SortKeys: true}))
}

// Text is compact, ordered, re-encoded without HTML escaping.
func Text(v *Value) string { return string(Compact(v, PrintOpts{})) }

func strLit(lit, s string, keep bool, esc bool) string {
	if keep && lit != "" {
		if esc {
			return EscapeLit(lit)
		}
		return lit
	}
	return EncodeString(s, esc)
}

func write(sb *strings.Builder, v *Value, o PrintOpts) {
	switch v.K {
	case Null:
		sb.WriteString("null")
	case Bool:
		if v.B {
			sb.WriteString("true")
		} else {
			sb.WriteString("false")
		}
	case Num:
		sb.WriteString(v.Lit)
	case Str:
		sb.WriteString(strLit(v.Lit, v.S, o.KeepLits, o.EscapeHTML))
	case Arr:
		sb.WriteByte('[')
		for i, e := range v.A {
			if i > 0 {
				sb.WriteByte(',')
			}
			write(sb, e, o)
		}
		sb.WriteByte(']')
	case Obj:
		sb.WriteByte('{')
		ms := v.O
		if o.SortKeys {
			ms = append([]Member(nil), v.O...)
			sort.SliceStable(ms, func(i, j int) bool { return ms[i].Name < ms[j].Name })
		}
		for i, m := range ms {
			if i > 0 {
				sb.WriteByte(',')
			}
			sb.WriteString(strLit(m.NameLit, m.Name, o.KeepNameLits, o.EscapeHTML))
			sb.WriteByte(':')
			write(sb, m.V, o)
		}
		sb.WriteByte('}')
	}
}

// Indent re-indents a compact well-formed text the way encoding/json's Indent
// does with an empty prefix: members and elements on their own lines, ": " after
// names, empty containers kept closed. Written independently of the library.
func Indent(compact []byte, indent string) []byte {
	var sb strings.Builder
	depth := 0
	inStr := false
	esc := false
	nl := func() {
		sb.WriteByte('\n')
		for i := 0; i < depth; i++ {
			sb.WriteString(indent)
		}
	}
	for i := 0; i < len(compact); i++ {
		c := compact[i]
		if inStr {
			sb.WriteByte(c)
			if esc {
				esc = false
			} else if c == '\\' {
				esc = true
			} else if c == '"' {
				inStr = false
			}
			continue
		}
		switch c {
		case '"':
			inStr = true
			sb.WriteByte(c)
		case '{', '[':
			sb.WriteByte(c)
			if i+1 < len(compact) && (compact[i+1] == '}' || compact[i+1] == ']') {
				sb.WriteByte(compact[i+1])
				i++
				continue
			}
			depth++
			nl()
		case '}', ']':
			depth--
			nl()
			sb.WriteByte(c)
		case ',':
			sb.WriteByte(c)
			nl()
		case ':':
			sb.WriteString(": ")
		case ' ', '\t', '\n', '\r':
		default:
			sb.WriteByte(c)
		}
	}
	return []byte(sb.String())
}
