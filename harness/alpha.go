package main

import (
	"fmt"
	"strconv"
	"strings"

	r69 "verif.local/h/ref6902"
	rj "verif.local/h/refjson"
)

// ---- document families ----

// Dq: curated roots, one per representation shortcut visible in the code.
var Dq = []string{
	`{"a":1,"b":{"c":"s","d":null}}`,
	`{"a":[1,null,{"x":true}],"b":"s"}`,
	`[1,{"a":[2,3]},null]`,
	`{"a/b":1,"m~n":{"a/b":[0]},"p%s%d%":null}`,
	"{\"n\":1.0,\"e\":1e400,\"z\":-0,\"big\":12345678901234567890123,\"s\":\"é\\n\u2068\u2069\u2027\u202a\u2038\u203f\"}",
	`{"h":"<>&","<k>":{"x":"a<b"}}`,
	`{}`,
	`[]`,
	" { \"a\" : [ 1 , 2 ] ,\n\t\"b\" : [ ] } ",
	`{"a":{"b":{"c":[{"d":1}]}}}`,
	`[[1,2],[3]]`,
	`{"b":2,"a":1,"c":{"z":1,"y":2}}`,
	`{"~1":1,"/":2,"a~1b":{"~0":[1]},"a/b":{"~":[2]},"~01":3,"~~":{"~~/~":4}}`,
	`{"":{"":1,"b":[{"":2}]},"a":{"b":3},"-1":{"-2":[0]}}`,
	// sizes beyond the usual small-value fast paths: a 70-byte member name, a 200-byte string, a 66-byte number
	`{"` + strings.Repeat("n", 70) + `":{"x":"` + strings.Repeat("s<", 100) + `"},"k":[` + strings.Repeat("9", 66) + `]}`,
}

// PatchValues V, simplest first.
var patchValuesSrc = []string{`1`, `"s"`, `null`, `{}`, `[]`, `{"k":null}`, `[null]`, `{"a":1}`}

// longValue: an 80-byte object value (first-level alphabets of C01/C05 only)
var longValue = rj.MustParse(`{"pad":"` + strings.Repeat("p", 60) + `","z":null}`)

func parseAll(src []string) []*rj.Value {
	out := make([]*rj.Value, len(src))
	for i, s := range src {
		out[i] = rj.MustParse(s)
	}
	return out
}

var patchValues = parseAll(patchValuesSrc)

// AlphaCfg tunes the operation alphabet Σ(D).
type AlphaCfg struct {
	Values      []*rj.Value // for add (all pointers)
	ReplValues  []*rj.Value // for replace
	Kinds       map[string]bool
	NoRootPtr   bool                       // leave "" out (legacy domain: no root add / copy from "")
	EnsureLen   int                        // >0: the alphabet is SigmaEnsure(EnsureLen, Values) instead
	NoRootAdd   bool                       // drop add "" and copy from "" (not offered by the legacy package)
	MaxFroms    int                        // >0: at most this many resolvable move/copy sources (evenly spread), plus the misses and ghosts
	NewNames    []string                   // further absent member names offered as targets under every object (besides "zz"): names that need escaping on output
	Custom      func(d *rj.Value) []r69.Op // a hand-picked alphabet instead of Sigma(D) (scale documents)
	RootOnly    bool                       // keep only operations whose path is "" (whole-document add / replace)
	InteriorNeg bool                       // also address the children of a last array element through the token -1 (negative index as an interior token)
}

type ptrInfo struct {
	P    string
	Node *rj.Value // nil if not resolvable
}

// pointers lists P(D): every resolvable pointer plus the near-misses.
func pointers(d *rj.Value, interiorNeg bool) (all []ptrInfo, resolvable []ptrInfo) {
	var walk func(v *rj.Value, p string)
	walk = func(v *rj.Value, p string) {
		pi := ptrInfo{p, v}
		all = append(all, pi)
		resolvable = append(resolvable, pi)
		switch v.K {
		case rj.Obj:
			for _, m := range v.O {
				walk(m.V, p+"/"+r69.EncodeToken(m.Name))
			}
			all = append(all, ptrInfo{p + "/zz", nil})
		case rj.Arr:
			n := len(v.A)
			for i, e := range v.A {
				walk(e, p+"/"+strconv.Itoa(i))
			}
			near := []string{strconv.Itoa(n), strconv.Itoa(n + 1), "-", "-1"}
			if n > 1 {
				near = append(near, strconv.Itoa(-n))
			}
			near = append(near, strconv.Itoa(-(n + 1)), "x")
			// the last element (if a container) reached through the negative token -1: interior negative index
			if interiorNeg && n > 0 && (v.A[n-1].K == rj.Obj || v.A[n-1].K == rj.Arr) && !strings.Contains(p, "/-1") {
				walk(v.A[n-1], p+"/-1")
			}
			for _, t := range near {
				var node *rj.Value
				if t[0] == '-' && t != "-" {
					if k, _ := strconv.Atoi(t); -k <= n {
						node = v.A[n+k]
					}
				}
				all = append(all, ptrInfo{p + "/" + t, node})
			}
		default:
			all = append(all, ptrInfo{p + "/a", nil})
		}
	}
	walk(d, "")
	all = append(all, ptrInfo{"/zz/y", nil})
	return
}

// unequalVariant returns a value of the same shape that differs.
func unequalVariant(v *rj.Value) *rj.Value {
	c := rj.Clone(v)
	switch c.K {
	case rj.Null:
		return rj.NewBool(false)
	case rj.Bool:
		c.B = !c.B
	case rj.Num:
		if c.Lit == "97" {
			c.Lit = "98"
		} else {
			c.Lit = "97"
		}
	case rj.Str:
		c.S, c.Lit = c.S+"x", ""
	case rj.Arr:
		if len(c.A) == 0 {
			c.A = append(c.A, rj.NewNull())
		} else {
			c.A[len(c.A)-1] = unequalVariant(c.A[len(c.A)-1])
		}
	case rj.Obj:
		if len(c.O) == 0 {
			c.O = append(c.O, rj.Member{Name: "q", V: rj.NewNull()})
		} else {
			c.O[len(c.O)-1].V = unequalVariant(c.O[len(c.O)-1].V)
		}
	}
	return c
}

// respell returns an equal value spelled differently: members reversed at every
// level, strings re-encoded (source literals dropped).
func respell(v *rj.Value) *rj.Value {
	c := rj.Clone(v)
	var f func(x *rj.Value)
	f = func(x *rj.Value) {
		if x.K == rj.Str {
			x.Lit = ""
		}
		for _, e := range x.A {
			f(e)
		}
		for i, j := 0, len(x.O)-1; i < j; i, j = i+1, j-1 {
			x.O[i], x.O[j] = x.O[j], x.O[i]
		}
		for i := range x.O {
			x.O[i].NameLit = ""
			f(x.O[i].V)
		}
	}
	f(c)
	return c
}

// Sigma builds the operation alphabet for the current reference state d.
func Sigma(d *rj.Value, cfg *AlphaCfg) []r69.Op { return SigmaFrom(d, cfg, nil) }

// SigmaFrom: orig is the document the sequence started from (nil at the first level): test also
// offers the value a location had THEN, spelled as it was in the source (a stale-cache probe).
func SigmaFrom(d *rj.Value, cfg *AlphaCfg, orig *rj.Value) []r69.Op {
	if cfg.Custom != nil {
		return cfg.Custom(d)
	}
	if cfg.EnsureLen > 0 {
		return SigmaEnsure(cfg.EnsureLen, cfg.Values)
	}
	all, res := pointers(d, cfg.InteriorNeg)
	if len(cfg.NewNames) > 0 {
		for _, pi := range res {
			if pi.Node != nil && pi.Node.K == rj.Obj {
				for _, n := range cfg.NewNames {
					if _, has := pi.Node.Get(n); !has {
						all = append(all, ptrInfo{pi.P + "/" + r69.EncodeToken(n), nil})
					}
				}
			}
		}
	}
	if cfg.NoRootPtr {
		all, res = all[1:], res[1:]
	}
	// ghost pointers: locations that existed in the document the sequence started from and no longer
	// do (a stale node kept by the implementation would still answer them)
	var ghosts []string
	if orig != nil {
		_, ores := pointers(orig, false)
		for _, op := range ores {
			if len(ghosts) >= 4 {
				break
			}
			if _, ok := r69.Resolve(d, op.P, true); !ok {
				all = append(all, ptrInfo{op.P, nil})
				ghosts = append(ghosts, op.P)
			}
		}
	}
	want := func(k string) bool { return cfg.Kinds == nil || cfg.Kinds[k] }
	vals := cfg.Values
	if vals == nil {
		vals = patchValues
	}
	repl := cfg.ReplValues
	if repl == nil {
		repl = []*rj.Value{patchValues[0], patchValues[2], patchValues[5], patchValues[6]}
	}
	var ops []r69.Op
	if want("add") {
		for _, p := range all {
			for _, v := range vals {
				ops = append(ops, r69.Op{Kind: "add", Path: p.P, Value: v, HasValue: true})
			}
		}
	}
	if want("remove") {
		for _, p := range all {
			ops = append(ops, r69.Op{Kind: "remove", Path: p.P})
		}
	}
	if want("replace") {
		for _, p := range all {
			for _, v := range repl {
				ops = append(ops, r69.Op{Kind: "replace", Path: p.P, Value: v, HasValue: true})
			}
		}
	}
	if want("test") {
		null := rj.NewNull()
		for _, p := range all {
			if p.Node != nil {
				ops = append(ops, r69.Op{Kind: "test", Path: p.P, Value: p.Node, HasValue: true})
				if p.Node.K == rj.Obj || p.Node.K == rj.Str || p.Node.K == rj.Arr {
					ops = append(ops, r69.Op{Kind: "test", Path: p.P, Value: respell(p.Node), HasValue: true})
				}
				ops = append(ops, r69.Op{Kind: "test", Path: p.P, Value: unequalVariant(p.Node), HasValue: true})
				if p.Node.K != rj.Null {
					ops = append(ops, r69.Op{Kind: "test", Path: p.P, Value: null, HasValue: true})
				}
				if orig != nil && (p.Node.K == rj.Obj || p.Node.K == rj.Arr) {
					if ov, ok := r69.Resolve(orig, p.P, true); ok && !rj.Equal(ov, p.Node) {
						ops = append(ops, r69.Op{Kind: "test", Path: p.P, Value: ov, HasValue: true})
					}
				}
			} else {
				ops = append(ops, r69.Op{Kind: "test", Path: p.P, Value: null, HasValue: true})
				ops = append(ops, r69.Op{Kind: "test", Path: p.P, Value: patchValues[0], HasValue: true})
			}
		}
	}
	froms := []string{}
	for i, p := range res {
		if cfg.MaxFroms > 0 && len(res) > cfg.MaxFroms && i*cfg.MaxFroms/len(res) == (i-1)*cfg.MaxFroms/len(res) && i > 0 {
			continue // an evenly spread sub-selection of the resolvable sources
		}
		froms = append(froms, p.P)
	}
	nmiss := 0
	for _, p := range all {
		if p.Node == nil && nmiss < 2 {
			froms = append(froms, p.P)
			nmiss++
		}
	}
	froms = append(froms, ghosts...)
	for _, p := range all { // one negative source
		if p.Node != nil && len(p.P) > 2 && p.P[len(p.P)-2:] == "-1" {
			froms = append(froms, p.P)
			break
		}
	}
	if want("move") {
		for _, f := range froms {
			for _, p := range all {
				ops = append(ops, r69.Op{Kind: "move", From: f, Path: p.P})
			}
		}
	}
	if want("copy") {
		for _, f := range froms {
			for _, p := range all {
				ops = append(ops, r69.Op{Kind: "copy", From: f, Path: p.P})
			}
		}
	}
	// drop duplicates (same operation text), keeping the first
	seen := map[string]bool{}
	out := ops[:0]
	for _, o := range ops {
		if cfg.NoRootAdd && ((o.Kind == "add" && o.Path == "") || (o.Kind == "copy" && o.From == "")) {
			continue
		}
		if cfg.RootOnly && o.Path != "" {
			continue
		}
		k := r69.OpText(o)
		if !seen[k] {
			seen[k] = true
			out = append(out, o)
		}
	}
	return out
}

func optString(o r69.Options) string {
	return fmt.Sprintf("neg=%v allowMissing=%v ensure=%v limit=%d escape=%v", o.Neg, o.AllowMissing, o.Ensure, o.Limit, o.EscapeHTML)
}

// SigmaEnsure: add operations whose paths run through (possibly) missing
// parents: all token sequences of length 1..maxLen over names (incl. ones that
// need ~0/~1), small indices, and "-" as last token.
func SigmaEnsure(maxLen int, vals []*rj.Value) []r69.Op {
	toks := []string{"a", "b", "a/b", "m~~n", "0", "1", "3"}
	var ops []r69.Op
	var rec func(prefix []string)
	rec = func(prefix []string) {
		lasts := append(append([]string(nil), toks...), "-")
		for _, l := range lasts {
			p := r69.JoinPointer(append(append([]string(nil), prefix...), l))
			for _, v := range vals {
				ops = append(ops, r69.Op{Kind: "add", Path: p, Value: v, HasValue: true})
			}
		}
		if len(prefix)+1 < maxLen {
			for _, t := range toks {
				rec(append(append([]string(nil), prefix...), t))
			}
		}
	}
	rec(nil)
	return ops
}
