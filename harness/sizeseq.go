package main

import (
	"fmt"
	"strconv"
	"strings"

	r69 "verif.local/h/ref6902"
	rj "verif.local/h/refjson"
)

// Size sweeps for the sequence engine (the counterpart of sizex.go): documents that sit exactly at,
// just below and just above a size - a string or member name of n bytes, an object of n members, an
// array of n elements - for every n from 0 to 130 and around the powers of two beyond, each explored
// to depth 2..4 with a SMALL hand-picked alphabet whose operations touch the sized part: skipped
// removes, creation and removal of a new member, moves and copies of and into the sized part, tests
// that pass and tests that differ from the document only in the first or last byte.

func stringDoc(n int) string {
	s := plainString(n, 'x')
	return `{"s":"` + s + `","` + s + `_":{"x":1,"y":"` + s + `"},"num":1` + strings.Repeat("0", n) + `,"k":1}`
}

// stringOps reads the sized string back from the current document (member "s", else the member whose
// name ends in "_", else "t").
func stringOps(d *rj.Value) []r69.Op {
	var s string
	found := false
	if d.K == rj.Obj {
		if v, ok := d.Get("s"); ok && v.K == rj.Str {
			s, found = v.S, true
		}
		if !found {
			for _, m := range d.O {
				if strings.HasSuffix(m.Name, "_") && !strings.HasSuffix(m.Name, "__") {
					s, found = strings.TrimSuffix(m.Name, "_"), true
					break
				}
			}
		}
		if !found {
			if v, ok := d.Get("t"); ok && v.K == rj.Str {
				s, found = v.S, true
			}
		}
	}
	one := rj.MustParse(`1`)
	if !found {
		return []r69.Op{{Kind: "test", Path: "/k", Value: one, HasValue: true}, {Kind: "add", Path: "/k", Value: one, HasValue: true}}
	}
	n := len(s)
	last, first := s, s
	if n > 0 {
		last = s[:n-1] + "y"
		first = "Z" + s[1:]
	} else {
		last, first = "y", "Z"
	}
	name := "/" + s + "_"
	num := "1" + strings.Repeat("0", n)
	numLast := "1" + strings.Repeat("0", imax(n-1, 0)) + "1"
	if n == 0 {
		numLast = "2"
	}
	str := func(x string) *rj.Value { return rj.NewStr(x) }
	T := func(path string, v *rj.Value) r69.Op {
		return r69.Op{Kind: "test", Path: path, Value: v, HasValue: true}
	}
	A := func(path string, v *rj.Value) r69.Op {
		return r69.Op{Kind: "add", Path: path, Value: v, HasValue: true}
	}
	return []r69.Op{
		T("/s", str(s)), T("/s", str(last)), T("/s", str(first)),
		T("/num", rj.NewNum(num)), T("/num", rj.NewNum(numLast)),
		T(name+"/y", str(s)), T(name, rj.MustParse(`{"x":1}`)),
		T("/t", str(s)), T("/t", str(last)),
		{Kind: "copy", From: "/s", Path: "/t"}, {Kind: "move", From: "/s", Path: "/t"},
		{Kind: "copy", From: name, Path: "/" + last + "_"}, {Kind: "move", From: name, Path: "/" + first + "__"},
		A("/u", str(s)), A(name+"/z", str(last)), A("/s", str(last)), A("/"+last+"_", rj.MustParse(`{"x":2}`)),
		{Kind: "remove", Path: name}, {Kind: "remove", Path: "/s"}, {Kind: "remove", Path: "/" + last + "_"},
		{Kind: "replace", Path: "/s", Value: rj.NewNull(), HasValue: true}, {Kind: "replace", Path: name + "/x", Value: str(first), HasValue: true},
	}
}

func widthDoc(n int) string { return txt(widthObj(n)) }

func arrayDoc(n int) string {
	return `{"a":` + txt(intArray(n)) + `,"k":1}`
}

// thresholdOps: the alphabet for the width / length documents, recomputed from the current document.
func thresholdOps(d *rj.Value) []r69.Op {
	one, null := rj.MustParse(`1`), rj.NewNull()
	T := func(path string, v *rj.Value) r69.Op {
		return r69.Op{Kind: "test", Path: path, Value: v, HasValue: true}
	}
	A := func(path string, v *rj.Value) r69.Op {
		return r69.Op{Kind: "add", Path: path, Value: v, HasValue: true}
	}
	R := func(path string) r69.Op { return r69.Op{Kind: "remove", Path: path} }
	if d.K != rj.Obj {
		return []r69.Op{T("", d)}
	}
	if a, ok := d.Get("a"); ok && a.K == rj.Arr {
		n := len(a.A)
		ix := func(i int) string { return "/a/" + strconv.Itoa(i) }
		ops := []r69.Op{
			R(ix(n + 5)), R("/nope"), R("/a/0/nope"), // absent: skipped under AllowMissingPathOnRemove
			A("/a/-", one), A(ix(0), null), A(ix(n), one), A(ix(n/2), rj.MustParse(`{"m":null}`)),
			R(ix(0)), R(ix(n - 1)), R(ix(n)),
			{Kind: "move", From: ix(0), Path: "/a/-"}, {Kind: "move", From: ix(n - 1), Path: ix(0)}, {Kind: "copy", From: "/a", Path: "/b"}, {Kind: "copy", From: ix(n - 1), Path: "/a/-"},
			{Kind: "replace", Path: ix(n - 1), Value: null, HasValue: true},
		}
		if n > 0 {
			ops = append(ops, T(ix(n-1), a.A[n-1]), T(ix(0), a.A[0]), T(ix(n-1), rj.MustParse(`-7`)), T("/a/-1", a.A[n-1]))
		}
		if b, ok := d.Get("b"); ok && rj.Nodes(b) < 3000 {
			ops = append(ops, T("/b", a), R("/b"))
		}
		return ops
	}
	n := len(d.O)
	firstName, lastName := "/m0000", "/m0000"
	if n > 0 {
		firstName, lastName = "/"+r69.EncodeToken(d.O[0].Name), "/"+r69.EncodeToken(d.O[n-1].Name)
	}
	ops := []r69.Op{
		R("/nope"), R("/m0001/nope/x"), R("/zz/nope"), // absent: skipped under AllowMissingPathOnRemove
		A("/zz", one), A("/yy", rj.MustParse(`{"n":null}`)), A(firstName, null), A("/m0001/new", one),
		R("/zz"), R("/yy"), R(firstName), R(lastName),
		{Kind: "move", From: "/zz", Path: "/yy"}, {Kind: "move", From: "/m0001", Path: "/zz"}, {Kind: "move", From: lastName, Path: "/m0001/moved"},
		{Kind: "copy", From: "/m0001", Path: "/zz"}, {Kind: "copy", From: lastName, Path: "/yy"},
		{Kind: "replace", Path: "/zz", Value: null, HasValue: true}, {Kind: "replace", Path: lastName, Value: rj.MustParse(`[1]`), HasValue: true},
		T("/zz", one), T("/zz", null), T("/yy/n", null),
	}
	if n > 0 {
		ops = append(ops, T(lastName, d.O[n-1].V), T(firstName, d.O[0].V))
	}
	return ops
}

// stringSizePhase: depth 2 over the string documents of every swept length.
func stringSizePhase(p *seqProp, tier string) *seqProp {
	d := *p
	sizes := sweepSizes(300, 500, 1000, 1024, 4096, 10000)
	if tier == "thorough" {
		sizes = sweepSizes(700, 1000, 1024, 2048, 4096, 10000, 65536)
	}
	d.Docs = nil
	for _, n := range sizes {
		d.Docs = append(d.Docs, stringDoc(n))
	}
	d.Depth = 2
	d.Opts = p.Opts[:1]
	d.Alpha = []*AlphaCfg{{Custom: stringOps}}
	d.Rule = fmt.Sprintf("STRING SIZES: %d documents holding one string, one member name and one number literal of n bytes (n = 0..%d and around the powers of two up to %d); all sequences <= 2 over ~22 operations that test (equal / last byte differs / first byte differs), copy, move, add, remove and replace the sized parts; same oracle", len(sizes), sizes[0]+130, sizes[len(sizes)-1])
	return &d
}

// widthSizePhase: depth `depth` over objects / arrays of the swept sizes.
func widthSizePhase(p *seqProp, sizes []int, depth int, allOpts bool) *seqProp {
	d := *p
	d.Docs = nil
	for _, n := range sizes {
		d.Docs = append(d.Docs, widthDoc(n), arrayDoc(n))
	}
	d.Depth = depth
	if !allOpts {
		d.Opts = p.Opts[:1]
	}
	d.Alpha = []*AlphaCfg{{Custom: thresholdOps}}
	d.Rule = fmt.Sprintf("WIDTHS: objects of n members and arrays of n elements for n in %v; all sequences <= %d over ~22 operations recomputed from the current document: removes of absent targets, creation / removal / move / copy / test of a new member, of the first and of the last member or element; same oracle", sizes, depth)
	return &d
}

func imax(a, b int) int {
	if a > b {
		return a
	}
	return b
}

// sizePhases: the sweeps a sequence check carries (quick / thorough sizes).
func sizePhases(p *seqProp, tier string, widthDepth int, allOpts bool) []*seqProp {
	sizes := sweepSizes(20, 32, 37, 64, 100, 128, 256)
	if tier == "thorough" {
		sizes = sweepSizes(70, 100, 128, 200, 256, 500, 512, 1000, 1024)
	}
	return []*seqProp{stringSizePhase(p, tier), widthSizePhase(p, sizes, widthDepth, allOpts), productPhase(p, tier), scriptPhase(p, tier), prefixNamesPhase(p), twinsPhase(p)}
}

// under runs a size alphabet on a sized document that sits at pointer prefix inside a larger one: every
// path of the inner alphabet is prefixed; if the inner document is gone, two operations on the wrapper remain.
func under(prefix string, f func(d *rj.Value) []r69.Op) func(d *rj.Value) []r69.Op {
	toks := strings.Split(strings.TrimPrefix(prefix, "/"), "/")
	return func(d *rj.Value) []r69.Op {
		cur := d
		for _, t := range toks {
			switch cur.K {
			case rj.Obj:
				v, ok := cur.Get(t)
				if !ok {
					cur = nil
				} else {
					cur = v
				}
			case rj.Arr:
				i, err := strconv.Atoi(t)
				if err != nil || i < 0 || i >= len(cur.A) {
					cur = nil
				} else {
					cur = cur.A[i]
				}
			default:
				cur = nil
			}
			if cur == nil {
				one := rj.MustParse(`1`)
				return []r69.Op{{Kind: "test", Path: "/k", Value: one, HasValue: true}, {Kind: "remove", Path: prefix}}
			}
		}
		var out []r69.Op
		for _, o := range f(cur) {
			o.Path = prefix + o.Path
			if o.Kind == "move" || o.Kind == "copy" {
				o.From = prefix + o.From
			}
			out = append(out, o)
		}
		// and the sized document as a whole
		out = append(out, r69.Op{Kind: "copy", From: prefix, Path: "/cp"}, r69.Op{Kind: "move", From: prefix, Path: "/mv"}, r69.Op{Kind: "test", Path: prefix, Value: cur, HasValue: true})
		return out
	}
}

// productPhase: the string / width / length documents next to 64 and 256 (thorough: 16 .. 4096) once more as
// element 17 of an array member and nine levels down, depth 2.
func productPhase(p *seqProp, tier string) *seqProp {
	d := *p
	pows := []int{64, 256}
	if tier == "thorough" {
		pows = []int{16, 32, 64, 128, 256, 1024, 4096}
	}
	d.Docs = nil
	d.Depth = 2
	d.Opts = p.Opts[:1]
	inArr := func(doc string) string {
		return `{"w":` + strings.TrimSuffix(txt(intArray(17)), "]") + "," + doc + `],"k":1}`
	}
	deep := func(doc string) string {
		for i := 0; i < 9; i++ {
			doc = `{"d":` + doc + `,"s":` + strconv.Itoa(i) + `}`
		}
		return doc
	}
	deepPrefix := strings.Repeat("/d", 9)
	type variant struct {
		doc string
		ops func(d *rj.Value) []r69.Op
	}
	var vs []variant
	for _, pw := range pows {
		for _, n := range []int{pw - 1, pw, pw + 1} {
			for _, inner := range []struct {
				doc string
				ops func(d *rj.Value) []r69.Op
			}{{stringDoc(n), stringOps}, {widthDoc(n), thresholdOps}, {arrayDoc(n), thresholdOps}} {
				vs = append(vs, variant{inArr(inner.doc), under("/w/17", inner.ops)}, variant{deep(inner.doc), under(deepPrefix, inner.ops)})
			}
		}
	}
	for _, v := range vs {
		d.Docs = append(d.Docs, v.doc)
	}
	// the alphabet is chosen by where the sized document sits in the CURRENT document
	d.Alpha = []*AlphaCfg{{Custom: func(cur *rj.Value) []r69.Op {
		if cur.K == rj.Obj {
			if _, ok := cur.Get("w"); ok {
				if in := resolve(cur, "/w/17"); in != nil {
					return under("/w/17", pickOps(in))(cur)
				}
			}
			if in := resolve(cur, deepPrefix); in != nil {
				return under(deepPrefix, pickOps(in))(cur)
			}
		}
		return []r69.Op{{Kind: "test", Path: "", Value: cur, HasValue: true}}
	}}}
	d.Rule = fmt.Sprintf("PRODUCTS of a size and a position: the string / width / length documents of sizes p-1, p, p+1 for p in %v placed as element 17 of an array member and nine levels down; all sequences <= 2 over the size alphabets re-based on that position (+ copy / move / test of the whole sized document); same oracle", pows)
	return &d
}

func pickOps(inner *rj.Value) func(d *rj.Value) []r69.Op {
	if inner.K == rj.Obj {
		if _, ok := inner.Get("s"); ok {
			return stringOps
		}
		if _, ok := inner.Get("num"); ok {
			return stringOps
		}
	}
	return thresholdOps
}

func resolve(d *rj.Value, ptr string) *rj.Value {
	cur := d
	for _, t := range strings.Split(strings.TrimPrefix(ptr, "/"), "/") {
		switch cur.K {
		case rj.Obj:
			v, ok := cur.Get(t)
			if !ok {
				return nil
			}
			cur = v
		case rj.Arr:
			i, err := strconv.Atoi(t)
			if err != nil || i < 0 || i >= len(cur.A) {
				return nil
			}
			cur = cur.A[i]
		default:
			return nil
		}
	}
	return cur
}

// scriptPhase: the PATCH-LENGTH dimension. A patch is a step repeated N times (N = 0 .. 70 and around 128,
// 256) followed by ONE probe from a small alphabet aimed at what the steps touched: N removes from a wide
// object, N adds to an object / appends to an array / inserts at the front, N add-remove alternations on
// one name, N copies, N moves along a chain, N replaces - then replace / copy / move / remove / test / add on
// the member touched last, touched first, and on an untouched one.
func scriptPhase(p *seqProp, tier string) *seqProp {
	d := *p
	counts := sweepSizes(70, 100, 128, 256)
	if tier == "thorough" {
		counts = sweepSizes(140, 200, 256, 500, 512, 1000, 1024)
	}
	d.Docs, d.Alpha, d.Depth = nil, nil, 0
	d.Opts = p.Opts[:1]
	d.Scripts = func() []seqScript { return lengthScripts(counts) }
	d.Rule = fmt.Sprintf("PATCH LENGTH: one step repeated N times (N = 0..%d and around the powers of two up to %d: removes from / adds to a wide object, appends and front inserts on an array, add-remove alternations on one name, copies, chained moves, replaces) followed by each of ~14 probe operations on the member touched last, touched first and on an untouched one; same oracle", 70, counts[len(counts)-1])
	return &d
}

func lengthScripts(counts []int) []seqScript {
	one, null := rj.MustParse(`1`), rj.NewNull()
	maxN := counts[len(counts)-1]
	wide := widthDoc(maxN + 8)
	small := `{"o":{"x":1},"a":[0],"src":{"v":[1,2]},"k":1}`
	name := func(i int) string { return fmt.Sprintf("/m%04d", i) }
	probes := func(last, first, other string) []r69.Op {
		var ps []r69.Op
		for _, t := range []string{last, first, other} {
			ps = append(ps,
				r69.Op{Kind: "replace", Path: t, Value: rj.MustParse(`"back"`), HasValue: true},
				r69.Op{Kind: "copy", From: t, Path: "/probe"},
				r69.Op{Kind: "move", From: t, Path: "/probe"},
				r69.Op{Kind: "remove", Path: t},
				r69.Op{Kind: "test", Path: t, Value: null, HasValue: true},
				r69.Op{Kind: "add", Path: t, Value: one, HasValue: true})
		}
		return ps
	}
	var out []seqScript
	emit := func(doc string, steps []r69.Op, ps []r69.Op) {
		out = append(out, seqScript{doc, append([]r69.Op(nil), steps...)})
		for _, pr := range ps {
			out = append(out, seqScript{doc, append(append([]r69.Op(nil), steps...), pr)})
		}
	}
	for _, n := range counts {
		// N removes from the wide object, in order and from the end
		var st, st2 []r69.Op
		for i := 0; i < n; i++ {
			st = append(st, r69.Op{Kind: "remove", Path: name(i)})
			st2 = append(st2, r69.Op{Kind: "remove", Path: name(maxN + 7 - i)})
		}
		emit(wide, st, probes(name(imax(n-1, 0)), name(0), name(maxN+7)))
		emit(wide, st2, probes(name(maxN+7-imax(n-1, 0)), name(maxN+7), name(0)))
		// N adds of new members to the small object's member o
		st = nil
		for i := 0; i < n; i++ {
			st = append(st, r69.Op{Kind: "add", Path: fmt.Sprintf("/o/n%04d", i), Value: rj.NewNum(fmt.Sprint(i)), HasValue: true})
		}
		emit(small, st, probes(fmt.Sprintf("/o/n%04d", imax(n-1, 0)), "/o/n0000", "/o/x"))
		// N appends / N front inserts on the array
		st, st2 = nil, nil
		for i := 0; i < n; i++ {
			st = append(st, r69.Op{Kind: "add", Path: "/a/-", Value: rj.NewNum(fmt.Sprint(i + 1)), HasValue: true})
			st2 = append(st2, r69.Op{Kind: "add", Path: "/a/0", Value: rj.NewNum(fmt.Sprint(-i - 1)), HasValue: true})
		}
		emit(small, st, probes(fmt.Sprintf("/a/%d", n), "/a/0", fmt.Sprintf("/a/%d", n+1)))
		emit(small, st2, probes("/a/0", fmt.Sprintf("/a/%d", n), "/a/-1"))
		// N add-remove alternations on one name (ends removed when N is even)
		st = nil
		for i := 0; i < n; i++ {
			if i%2 == 0 {
				st = append(st, r69.Op{Kind: "add", Path: "/o/t", Value: rj.NewNum(fmt.Sprint(i)), HasValue: true})
			} else {
				st = append(st, r69.Op{Kind: "remove", Path: "/o/t"})
			}
		}
		emit(small, st, probes("/o/t", "/o/x", "/o/zz"))
		// N copies of one source to new names; N moves along a chain; N replaces of one member
		st, st2 = nil, nil
		var st3 []r69.Op
		prev := "/src"
		for i := 0; i < n; i++ {
			st = append(st, r69.Op{Kind: "copy", From: "/src", Path: fmt.Sprintf("/c%04d", i)})
			nx := fmt.Sprintf("/h%04d", i)
			st2 = append(st2, r69.Op{Kind: "move", From: prev, Path: nx})
			prev = nx
			st3 = append(st3, r69.Op{Kind: "replace", Path: "/k", Value: rj.NewNum(fmt.Sprint(i)), HasValue: true})
		}
		emit(small, st, probes(fmt.Sprintf("/c%04d/v/0", imax(n-1, 0)), "/c0000", "/src/v/1"))
		// MIXED patterns: add/remove on two names in turn; a move ring that returns to its start; grow - shrink -
		// grow of the array; copies interleaved with removes of the previous copy
		var mx1, mx2, mx3, mx4 []r69.Op
		ring := []string{"/src", "/r1", "/r2", "/o/r3"}
		for i := 0; i < n; i++ {
			switch i % 4 {
			case 0:
				mx1 = append(mx1, r69.Op{Kind: "add", Path: "/o/p", Value: rj.NewNum(fmt.Sprint(i)), HasValue: true})
			case 1:
				mx1 = append(mx1, r69.Op{Kind: "add", Path: "/o/q", Value: rj.NewNum(fmt.Sprint(i)), HasValue: true})
			case 2:
				mx1 = append(mx1, r69.Op{Kind: "remove", Path: "/o/p"})
			case 3:
				mx1 = append(mx1, r69.Op{Kind: "remove", Path: "/o/q"})
			}
			mx2 = append(mx2, r69.Op{Kind: "move", From: ring[i%4], Path: ring[(i+1)%4]})
			if (i/8)%2 == 0 {
				mx3 = append(mx3, r69.Op{Kind: "add", Path: "/a/-", Value: rj.NewNum(fmt.Sprint(i)), HasValue: true})
			} else {
				mx3 = append(mx3, r69.Op{Kind: "remove", Path: "/a/0"})
			}
			if i%2 == 0 {
				mx4 = append(mx4, r69.Op{Kind: "copy", From: "/src", Path: fmt.Sprintf("/c%04d", i)})
			} else {
				mx4 = append(mx4, r69.Op{Kind: "remove", Path: fmt.Sprintf("/c%04d", i-1)})
			}
		}
		emit(small, mx1, probes("/o/p", "/o/q", "/o/x"))
		emit(small, mx2, probes(ring[n%4], ring[(n+1)%4], "/src/v/0"))
		emit(small, mx3, probes("/a/0", "/a/-1", "/a/1"))
		emit(small, mx4, probes(fmt.Sprintf("/c%04d", imax(n-1, 0)&^1), fmt.Sprintf("/c%04d", imax(n-2, 0)), "/src"))
		emit(small, st2, probes(prev+"/v", "/src", "/h0000"))
		emit(small, st3, probes("/k", "/o/x", "/zz"))
	}
	return out
}

// stringTokenPhase: every string of up to 4 TOKENS over {a, blank, <, escaped backslash, escaped quote, \n,
// a \u escape, a raw two-byte character} - the shapes on which a hand-written scan of a string literal
// goes wrong (which quote ends it, what an escape swallows) - as a member value, a member name and a
// nested value, with EscapeHTML on and off, under the empty patch and three small ones. The strings are
// untouched by the patch: they must keep their value (C05) in a well-formed output (C15).
func stringTokenPhase(p *seqProp, maxTok int) *seqProp {
	d := *p
	d.Docs, d.Alpha, d.Depth = nil, nil, 0
	d.Opts = []r69.Options{{Neg: true, EscapeHTML: true}, {Neg: true, EscapeHTML: false}}
	toks := []string{"a", " ", "<", `\\`, `\"`, `\n`, `é`, "ü"}
	d.Scripts = func() []seqScript {
		var seqs []string
		var rec func(cur string, n int)
		rec = func(cur string, n int) {
			seqs = append(seqs, cur)
			if n == maxTok {
				return
			}
			for _, t := range toks {
				rec(cur+t, n+1)
			}
		}
		rec("", 0)
		one := rj.MustParse(`1`)
		var out []seqScript
		for _, s := range seqs {
			doc := `{"s":"` + s + `","t":"x y \" z","N` + s + `":{"u":"` + s + ` "},"k":[" ` + s + `"]}`
			v := rj.MustParse(`"` + s + `"`)
			out = append(out, seqScript{doc, nil},
				seqScript{doc, []r69.Op{{Kind: "add", Path: "/q", Value: one, HasValue: true}}},
				seqScript{doc, []r69.Op{{Kind: "test", Path: "/s", Value: v, HasValue: true}, {Kind: "copy", From: "/s", Path: "/c"}}},
				seqScript{doc, []r69.Op{{Kind: "add", Path: "/k/-", Value: v, HasValue: true}, {Kind: "remove", Path: "/t"}}})
		}
		return out
	}
	d.Rule = fmt.Sprintf("STRING SHAPES: every string of <= %d tokens over {a, blank, <, escaped backslash, escaped quote, \\n, \\u00e9, raw two-byte character} as member value, member name and nested value, EscapeHTML on and off, under the empty patch and three small patches that leave the strings alone; same oracle", maxTok)
	return &d
}

// prefixNamesPhase: member names and indices whose POINTER TEXT is a prefix of another's without being its
// ancestor (a / ab / a1, k1 / k12, the empty name, element 1 and element 10 of a 12-element array): code that
// compares pointers as strings instead of token by token confuses them. Depth 2 over the ordinary alphabet
// with null as the only value.
func prefixNamesPhase(p *seqProp) *seqProp {
	d := *p
	d.Docs = []string{
		`{"a":{"x":1},"ab":{"y":2},"a1":[1],"k1":{"k":1},"k12":{"k1":2},"":{"":0}}`,
		`{"arr":[0,"s",2,3,4,5,6,7,8,9,{"t":10},11],"ar":{"r":1},"spec":{"tpl":"str","tpls":{"y":1},"t":[1]}}`,
	}
	d.Depth = 2
	d.Opts = p.Opts[:1]
	nra := len(p.Alpha) > 0 && p.Alpha[0].NoRootAdd
	a := &AlphaCfg{Values: v1n, ReplValues: v1n, MaxFroms: 12, NoRootAdd: nra, NoRootPtr: true}
	d.Alpha = []*AlphaCfg{a, {Values: v1n, ReplValues: v1n, Kinds: kinds("remove", "add", "test", "move"), MaxFroms: 3, NoRootAdd: nra, NoRootPtr: true}}
	d.Rule = "PREFIX NAMES: two documents whose member names / indices are string prefixes of one another without being ancestors (a, ab, a1; k1, k12; the empty name; elements 1 and 10; tpl, tpls); all sequences <= 2 over Sigma(D) with null as the only value; same oracle"
	return &d
}

// twinsPhase: sibling objects (and array elements) with IDENTICAL ordered member-name lists of 1..9 names -
// what one of them gains or loses must not show in the other (a name list shared between look-alikes).
func twinsPhase(p *seqProp) *seqProp {
	d := *p
	d.Docs = nil
	for _, n := range []int{1, 2, 3, 5, 9} {
		var ms []string
		for i := 0; i < n; i++ {
			ms = append(ms, fmt.Sprintf(`"n%d":%d`, i, i))
		}
		o := "{" + strings.Join(ms, ",") + "}"
		d.Docs = append(d.Docs, `{"p":`+o+`,"q":`+o+`,"r":[`+o+`,`+o+`]}`)
	}
	d.Depth = 2
	d.Opts = p.Opts[:1]
	nra := len(p.Alpha) > 0 && p.Alpha[0].NoRootAdd
	a := &AlphaCfg{Values: v1n, ReplValues: v1n, Kinds: kinds("add", "remove", "test", "move"), MaxFroms: 3, NoRootAdd: nra, NoRootPtr: true}
	d.Alpha = []*AlphaCfg{a, a}
	d.Rule = "TWINS: sibling objects and array elements with identical ordered name lists of 1, 2, 3, 5, 9 names; all sequences <= 2 of add / remove / test / move; same oracle"
	return &d
}
