package main

import (
	"fmt"
	"strconv"
	"strings"

	r69 "verif.local/h/ref6902"
	rj "verif.local/h/refjson"
)

// Size sweeps for the sequence engine (the counterpart of sizex.go): documents that sit exactly at,
// just below and just above a size - a string or member name of n bytes, an object of n members, an
// array of n elements - for every n from 0 to 130 and around the powers of two beyond, each explored
// to depth 2..4 with a SMALL hand-picked alphabet whose operations touch the sized part: skipped
// removes, creation and removal of a new member, moves and copies of and into the sized part, tests
// that pass and tests that differ from the document only in the first or last byte.

func stringDoc(n int) string {
	s := plainString(n, 'x')
	return `{"s":"` + s + `","` + s + `_":{"x":1,"y":"` + s + `"},"num":1` + strings.Repeat("0", n) + `,"k":1}`
}

// stringOps reads the sized string back from the current document (member "s", else the member whose
// name ends in "_", else "t").
func stringOps(d *rj.Value) []r69.Op {
	var s string
	found := false
	if d.K == rj.Obj {
		if v, ok := d.Get("s"); ok && v.K == rj.Str {
			s, found = v.S, true
		}
		if !found {
			for _, m := range d.O {
				if strings.HasSuffix(m.Name, "_") && !strings.HasSuffix(m.Name, "__") {
					s, found = strings.TrimSuffix(m.Name, "_"), true
					break
				}
			}
		}
		if !found {
			if v, ok := d.Get("t"); ok && v.K == rj.Str {
				s, found = v.S, true
			}
		}
	}
	one := rj.MustParse(`1`)
	if !found {
		return []r69.Op{{Kind: "test", Path: "/k", Value: one, HasValue: true}, {Kind: "add", Path: "/k", Value: one, HasValue: true}}
	}
	n := len(s)
	last, first := s, s
	if n > 0 {
		last = s[:n-1] + "y"
		first = "Z" + s[1:]
	} else {
		last, first = "y", "Z"
	}
	name := "/" + s + "_"
	num := "1" + strings.Repeat("0", n)
	numLast := "1" + strings.Repeat("0", imax(n-1, 0)) + "1"
	if n == 0 {
		numLast = "2"
	}
	str := func(x string) *rj.Value { return rj.NewStr(x) }
	T := func(path string, v *rj.Value) r69.Op {
		return r69.Op{Kind: "test", Path: path, Value: v, HasValue: true}
	}
	A := func(path string, v *rj.Value) r69.Op {
		return r69.Op{Kind: "add", Path: path, Value: v, HasValue: true}
	}
	return []r69.Op{
		T("/s", str(s)), T("/s", str(last)), T("/s", str(first)),
		T("/num", rj.NewNum(num)), T("/num", rj.NewNum(numLast)),
		T(name+"/y", str(s)), T(name, rj.MustParse(`{"x":1}`)),
		T("/t", str(s)), T("/t", str(last)),
		{Kind: "copy", From: "/s", Path: "/t"}, {Kind: "move", From: "/s", Path: "/t"},
		{Kind: "copy", From: name, Path: "/" + last + "_"}, {Kind: "move", From: name, Path: "/" + first + "__"},
		A("/u", str(s)), A(name+"/z", str(last)), A("/s", str(last)), A("/"+last+"_", rj.MustParse(`{"x":2}`)),
		{Kind: "remove", Path: name}, {Kind: "remove", Path: "/s"}, {Kind: "remove", Path: "/" + last + "_"},
		{Kind: "replace", Path: "/s", Value: rj.NewNull(), HasValue: true}, {Kind: "replace", Path: name + "/x", Value: str(first), HasValue: true},
	}
}

func widthDoc(n int) string { return txt(widthObj(n)) }

func arrayDoc(n int) string {
	return `{"a":` + txt(intArray(n)) + `,"k":1}`
}

// thresholdOps: the alphabet for the width / length documents, recomputed from the current document.
func thresholdOps(d *rj.Value) []r69.Op {
	one, null := rj.MustParse(`1`), rj.NewNull()
	T := func(path string, v *rj.Value) r69.Op {
		return r69.Op{Kind: "test", Path: path, Value: v, HasValue: true}
	}
	A := func(path string, v *rj.Value) r69.Op {
		return r69.Op{Kind: "add", Path: path, Value: v, HasValue: true}
	}
	R := func(path string) r69.Op { return r69.Op{Kind: "remove", Path: path} }
	if d.K != rj.Obj {
		return []r69.Op{T("", d)}
	}
	if a, ok := d.Get("a"); ok && a.K == rj.Arr {
		n := len(a.A)
		ix := func(i int) string { return "/a/" + strconv.Itoa(i) }
		ops := []r69.Op{
			R(ix(n + 5)), R("/nope"), R("/a/0/nope"), // absent: skipped under AllowMissingPathOnRemove
			A("/a/-", one), A(ix(0), null), A(ix(n), one), A(ix(n/2), rj.MustParse(`{"m":null}`)),
			R(ix(0)), R(ix(n - 1)), R(ix(n)),
			{Kind: "move", From: ix(0), Path: "/a/-"}, {Kind: "move", From: ix(n - 1), Path: ix(0)}, {Kind: "copy", From: "/a", Path: "/b"}, {Kind: "copy", From: ix(n - 1), Path: "/a/-"},
			{Kind: "replace", Path: ix(n - 1), Value: null, HasValue: true},
		}
		if n > 0 {
			ops = append(ops, T(ix(n-1), a.A[n-1]), T(ix(0), a.A[0]), T(ix(n-1), rj.MustParse(`-7`)), T("/a/-1", a.A[n-1]))
		}
		if b, ok := d.Get("b"); ok && rj.Nodes(b) < 3000 {
			ops = append(ops, T("/b", a), R("/b"))
		}
		return ops
	}
	n := len(d.O)
	firstName, lastName := "/m0000", "/m0000"
	if n > 0 {
		firstName, lastName = "/"+r69.EncodeToken(d.O[0].Name), "/"+r69.EncodeToken(d.O[n-1].Name)
	}
	ops := []r69.Op{
		R("/nope"), R("/m0001/nope/x"), R("/zz/nope"), // absent: skipped under AllowMissingPathOnRemove
		A("/zz", one), A("/yy", rj.MustParse(`{"n":null}`)), A(firstName, null), A("/m0001/new", one),
		R("/zz"), R("/yy"), R(firstName), R(lastName),
		{Kind: "move", From: "/zz", Path: "/yy"}, {Kind: "move", From: "/m0001", Path: "/zz"}, {Kind: "move", From: lastName, Path: "/m0001/moved"},
		{Kind: "copy", From: "/m0001", Path: "/zz"}, {Kind: "copy", From: lastName, Path: "/yy"},
		{Kind: "replace", Path: "/zz", Value: null, HasValue: true}, {Kind: "replace", Path: lastName, Value: rj.MustParse(`[1]`), HasValue: true},
		T("/zz", one), T("/zz", null), T("/yy/n", null),
	}
	if n > 0 {
		ops = append(ops, T(lastName, d.O[n-1].V), T(firstName, d.O[0].V))
	}
	return ops
}

// stringSizePhase: depth 2 over the string documents of every swept length.
func stringSizePhase(p *seqProp, tier string) *seqProp {
	d := *p
	sizes := sweepSizes(130, 256, 1024, 4096)
	if tier == "thorough" {
		sizes = sweepSizes(300, 512, 1024, 2048, 4096, 65536)
	}
	d.Docs = nil
	for _, n := range sizes {
		d.Docs = append(d.Docs, stringDoc(n))
	}
	d.Depth = 2
	d.Opts = p.Opts[:1]
	d.Alpha = []*AlphaCfg{{Custom: stringOps}}
	d.Rule = fmt.Sprintf("STRING SIZES: %d documents holding one string, one member name and one number literal of n bytes (n = 0..%d and around the powers of two up to %d); all sequences <= 2 over ~22 operations that test (equal / last byte differs / first byte differs), copy, move, add, remove and replace the sized parts; same oracle", len(sizes), sizes[0]+130, sizes[len(sizes)-1])
	return &d
}

// widthSizePhase: depth `depth` over objects / arrays of the swept sizes.
func widthSizePhase(p *seqProp, sizes []int, depth int, allOpts bool) *seqProp {
	d := *p
	d.Docs = nil
	for _, n := range sizes {
		d.Docs = append(d.Docs, widthDoc(n), arrayDoc(n))
	}
	d.Depth = depth
	if !allOpts {
		d.Opts = p.Opts[:1]
	}
	d.Alpha = []*AlphaCfg{{Custom: thresholdOps}}
	d.Rule = fmt.Sprintf("WIDTHS: objects of n members and arrays of n elements for n in %v; all sequences <= %d over ~22 operations recomputed from the current document: removes of absent targets, creation / removal / move / copy / test of a new member, of the first and of the last member or element; same oracle", sizes, depth)
	return &d
}

func imax(a, b int) int {
	if a > b {
		return a
	}
	return b
}

// sizePhases: the sweeps a sequence check carries (quick / thorough sizes).
func sizePhases(p *seqProp, tier string, widthDepth int, allOpts bool) []*seqProp {
	sizes := sweepSizes(20, 32, 64, 128, 256)
	if tier == "thorough" {
		sizes = sweepSizes(70, 128, 256, 512, 1024)
	}
	return []*seqProp{stringSizePhase(p, tier), widthSizePhase(p, sizes, widthDepth, allOpts)}
}
