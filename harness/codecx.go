//go:build shim

package main

import (
	"bytes"
	stdjson "encoding/json"
	"fmt"
	"io"
	"math"
	"reflect"
	"sort"
	"strings"
	"sync/atomic"
	"time"

	zj "github.com/evanphx/json-patch/v5/zzverifjson"
	zs "github.com/evanphx/json-patch/v5/zzvsync"

	"verif.local/h/core"
	rj "verif.local/h/refjson"
)

// E4 codecx: the forked codec against (1) value semantics on enumerated texts,
// (2) the standard library on enumerated Go types x values x texts, (3) the
// standard library on Decoder/Encoder streams under every split of the input
// into reads. Built in the shim flavour so that each call can be made both on a
// fresh codec state (pools emptied) and on a recycled one.

type CodecCase struct {
	Part string `json:"part"`
	What string `json:"what"`
	Text string `json:"text,omitempty"`
	Type string `json:"go_type,omitempty"`
	Val  string `json:"go_value,omitempty"`
}

func init() {
	checks["C17"] = &check{Engine: "codecx",
		Run:    runCodecx,
		Replay: func(ctx *core.Ctx, raw stdjson.RawMessage) { codecReplay(ctx, raw) },
		Budget: map[string]time.Duration{"quick": 100 * time.Second, "thorough": 25 * time.Minute}}
}

type codecRun struct {
	ctx  *core.Ctx
	n    *int64
	tier string
}

func (c *codecRun) viol(part, clause, key, detail string, cc CodecCase) {
	cc.Part = part
	c.ctx.Violate(core.Violation{Property: "C17", Clause: clause, Key: "C17:" + key, Detail: detail, Engine: "codecx", Case: core.J(cc)})
}

func runCodecx(ctx *core.Ctx, tier string) {
	zs.SetController(nil)
	c := &codecRun{ctx: ctx, n: ctx.Counter("comparisons"), tier: tier}
	ctx.Rep.Rule = "(1) texts: every value of the V3 family in 3-4 spellings plus escape/number specials: Unmarshal->Marshal reads back (independent reader) as the same value with number literals and code points intact; UnmarshalWithKeys / UnmarshalValidWithKeys report member names in document order; Compact / Indent / HTMLEscape equal independent implementations byte for byte; MarshalEscaped(false) differs from Marshal only in the five escapes - each call made on a fresh codec state (pools emptied) and again on the recycled one. " +
		"(2) Go values: run-time built types (bool, ints, float64, string, []byte, any, pointers, slices, arrays, maps with string/int keys, structs via reflect.StructOf with tags name / omitempty / string / '-' / '-,' and embedding; named types with MarshalJSON / UnmarshalJSON / MarshalText / UnmarshalText on value and pointer receivers, as fields, elements, map keys and behind interfaces, incl. a Marshaler that fails and one that returns invalid JSON; depth 2, thorough 3) x per-kind value domains (zero, extreme, NaN/Inf, HTML and invalid-UTF-8 strings, nil vs empty): Marshal, MarshalIndent, MarshalEscaped(false) equal encoding/json's bytes and error-ness (U+0008/U+000C spelling normalised); every text of a shape-matching and mismatching set is decoded into zero and into pre-filled targets and must give encoding/json's value (UseNumber; Number types normalised) and error-ness. " +
		"(3) streams: Decoder scripts over {Decode(any), Decode(int), Token, More, Buffered, InputOffset} of length <= 3 (thorough 4) on 9 streams, under EVERY split of the stream into <= 3 reads, compared step by step with encoding/json; Encoder with every SetIndent x SetEscapeHTML setting. states = distinct texts + (type,value) pairs + (stream,split) pairs; transitions = comparisons"
	ctx.Rep.Assume = append(ctx.Rep.Assume, "relative to the installed standard library (go1.23); field names are ASCII; RedirectMarshaler/TrustMarshaler are fork-only and judged through the library-level checks (C05, C15)")
	ctx.Phase("texts", func() { c.partTexts() })
	ctx.Phase("values", func() { c.partValues() })
	ctx.Phase("streams", func() { c.partStreams() })
	ctx.Rep.Trans = atomic.LoadInt64(c.n)
	ctx.Rep.Validated = ctx.Rep.Trans
	ctx.Rep.Evals = ctx.Rep.Trans
	ctx.Rep.Nontrivial = ctx.NStates()
}

// ---------- part 1: texts ----------

var specialTexts = []string{
	`"AA\/\"\\\b\f\n\r\t"`, `"😀"`, `"\ud800"`, `"\udc00x"`, `"\ud800A"`, `"\udc00\udc00"`, `"\ud800\ud800"`, `"\udc00\ud800"`, `"\ud800\udc00\udc00"`, `"\udc00\ud800\udc00"`, `{"\udc00":1,"\udc00\udc00":2}`, "\"é\U0001F600  \"", `"<>&"`, `"< "`,
	`-0`, `1.0`, `1E+2`, `1e400`, `12345678901234567890123`, `0.1e-7`, `-1.5E-0`, `[1.0,1.00,-0.0,1e0]`,
	`{"b":1.0,"a":{"z":null,"y":[1e400]},"":"", "A":2}`, `{"k":"‸‹›‿‪"}`, `[" ‸","¨("]`,
	`{"x":{"x":{"x":[[[{"deep":true}]]]}}}`, `"\u007f\u0080\u07ff\u0800\uffff\ud800\udc00\udbff\udfff"`, "\"\u0080\u07ff\u0800\uffff\U00010000\U0010FFFF\u2068\u2069\"", ` [ ] `, ` { } `, `"\u0000\u001f\u007f"`,
	"\"\xe2\x80\xb8 \xe2\x80\xbf \xe2\x80\xaa \xe2\x80\xa8\"", // U+2038 U+203F U+202A U+2028 raw
}

func (c *codecRun) partTexts() {
	vs := famV3()
	var texts []string
	seen := map[string]bool{}
	for _, v := range vs {
		for _, t := range variants(v) {
			if !seen[t] {
				seen[t] = true
				texts = append(texts, t)
			}
		}
	}
	for _, t := range specialTexts {
		for _, w := range []string{t, " " + t + "\n", `[` + t + `]`, `{"k":` + t + `}`} {
			if !seen[w] {
				seen[w] = true
				texts = append(texts, w)
			}
		}
	}
	// string shapes (run-length patterns incl. invalid UTF-8): judged against encoding/json, which defines
	// what invalid bytes decode to
	for _, sh := range stringShapes() {
		c.shapeText(`"` + sh + `"`)
		c.shapeText(`{"` + sh + `":["` + sh + `"]}`)
	}
	c.ctx.Count("texts", int64(len(texts)))
	for i, t := range texts {
		c.ctx.AddState("text:" + t)
		for _, fresh := range []bool{true, false} {
			if fresh {
				zs.Reset()
			}
			c.oneText(t, fresh)
		}
		if i%(len(texts)/5+1) == 0 {
			c.ctx.Sample(map[string]string{"text": t}, 10)
		}
	}
}

func (c *codecRun) shapeText(t string) {
	cc := CodecCase{What: "string shape vs encoding/json", Text: t}
	defer func() {
		if r := recover(); r != nil {
			c.viol("texts", "codec-panics", "codec-panics", fmt.Sprintf("%v on %q", r, t), cc)
		}
	}()
	c.ctx.AddState("shape:" + t)
	var fv, sv interface{}
	fe := zj.Unmarshal([]byte(t), &fv)
	se := stdjson.Unmarshal([]byte(t), &sv)
	atomic.AddInt64(c.n, 1)
	if (fe == nil) != (se == nil) {
		c.viol("texts", "unmarshal-error-differs", "unmarshal-error-differs:shape", fmt.Sprintf("Unmarshal(%q): fork err=%v, encoding/json err=%v", t, fe, se), cc)
		return
	}
	if fe != nil {
		return
	}
	fb, fe2 := zj.Marshal(fv)
	sb, se2 := stdjson.Marshal(sv)
	if (fe2 == nil) != (se2 == nil) || !bytes.Equal(normBF(fb), normBF(sb)) {
		c.viol("texts", "roundtrip-differs-from-stdlib", "roundtrip-differs-from-stdlib", fmt.Sprintf("Unmarshal+Marshal of %q: fork %q err=%v, encoding/json %q err=%v", t, fb, fe2, sb, se2), cc)
	}
	var cb bytes.Buffer
	var sc bytes.Buffer
	ce, sce := zj.Compact(&cb, []byte(t)), stdjson.Compact(&sc, []byte(t))
	if (ce == nil) != (sce == nil) || !bytes.Equal(cb.Bytes(), sc.Bytes()) {
		c.viol("texts", "compact-differs", "compact-differs", fmt.Sprintf("Compact(%q): fork %q, encoding/json %q", t, cb.Bytes(), sc.Bytes()), cc)
	}
}

func stateTag(fresh bool) string {
	if fresh {
		return "fresh codec state"
	}
	return "recycled codec state"
}

func (c *codecRun) oneText(t string, fresh bool) {
	cc := CodecCase{What: stateTag(fresh), Text: t}
	want, err := rj.Parse([]byte(t))
	if err != nil {
		panic("harness: specimen is not JSON: " + t)
	}
	defer func() {
		if r := recover(); r != nil {
			c.viol("texts", "codec-panics", "codec-panics", fmt.Sprintf("%v on %q (%s)", r, t, stateTag(fresh)), cc)
		}
	}()
	cmpValue := func(fn string, out []byte, err error) {
		atomic.AddInt64(c.n, 1)
		if err != nil {
			c.viol("texts", "roundtrip-fails", "roundtrip-fails:"+fn, fmt.Sprintf("%s of %q: %v (%s)", fn, t, err, stateTag(fresh)), cc)
			return
		}
		got, perr := rj.Parse(out)
		if perr != nil || !rj.Equal(got, want) {
			c.viol("texts", "roundtrip-changes-value", "roundtrip-changes-value:"+fn, fmt.Sprintf("%s: %q decodes and re-encodes to %q (%s)", fn, t, out, stateTag(fresh)), cc)
		}
	}
	// in "fresh" mode EVERY entry point starts from emptied pools (so each one is seen with a
	// brand-new decoder/encoder state, whatever ran before); otherwise states are recycled
	reset := func() {
		if fresh {
			zs.Reset()
		}
	}
	// the four decoding entry points into a dynamic value, then Marshal
	var v1, v2 interface{}
	reset()
	e1 := zj.Unmarshal([]byte(t), &v1)
	var o1 []byte
	if e1 == nil {
		o1, e1 = zj.Marshal(v1)
	}
	cmpValue("Unmarshal+Marshal", o1, e1)
	reset()
	e2 := zj.UnmarshalValid([]byte(t), &v2)
	var o2 []byte
	if e2 == nil {
		o2, e2 = zj.MarshalEscaped(v2, false)
	}
	cmpValue("UnmarshalValid+MarshalEscaped(false)", o2, e2)
	if want.K == rj.Obj && !rj.HasDup(want) {
		names := make([]string, len(want.O))
		for i, m := range want.O {
			names[i] = m.Name
		}
		for _, fn := range []string{"UnmarshalWithKeys", "UnmarshalValidWithKeys"} {
			for _, target := range []string{"map[string]any", "map[string]RawMessage"} {
				var keys []string
				var err error
				var back []byte
				reset()
				if target == "map[string]any" {
					m := map[string]interface{}{}
					if fn == "UnmarshalWithKeys" {
						keys, err = zj.UnmarshalWithKeys([]byte(t), &m)
					} else {
						keys, err = zj.UnmarshalValidWithKeys([]byte(t), &m)
					}
					if err == nil {
						back, err = zj.Marshal(m)
					}
				} else {
					m := map[string]*zj.RawMessage{}
					if fn == "UnmarshalWithKeys" {
						keys, err = zj.UnmarshalWithKeys([]byte(t), &m)
					} else {
						keys, err = zj.UnmarshalValidWithKeys([]byte(t), &m)
					}
					if err == nil {
						back, err = zj.Marshal(m)
					}
				}
				cmpValue(fn+" into "+target, back, err)
				atomic.AddInt64(c.n, 1)
				if err == nil && fmt.Sprintf("%q", keys) != fmt.Sprintf("%q", names) {
					c.viol("texts", "keys-not-in-document-order", "keys-not-in-document-order:"+fn, fmt.Sprintf("%s(%q) into %s reports keys %q, document order is %q (%s)", fn, t, target, keys, names, stateTag(fresh)), cc)
				}
			}
		}
	}
	// Compact / Indent / HTMLEscape against independent implementations
	compactWant := rj.Compact(want, rj.PrintOpts{KeepLits: true, KeepNameLits: true})
	var cb bytes.Buffer
	atomic.AddInt64(c.n, 1)
	if err := zj.Compact(&cb, []byte(t)); err != nil || !bytes.Equal(cb.Bytes(), compactWant) {
		c.viol("texts", "compact-differs", "compact-differs", fmt.Sprintf("Compact(%q) = %q err=%v, independent compaction %q", t, cb.Bytes(), err, compactWant), cc)
	}
	for _, ind := range []string{" ", "\t", "   "} {
		var ib bytes.Buffer
		atomic.AddInt64(c.n, 1)
		wantI := rj.Indent(compactWant, ind)
		if err := zj.Indent(&ib, []byte(t), "", ind); err != nil || !bytes.Equal(ib.Bytes(), wantI) {
			// leading/trailing whitespace of the source is kept by Indent: compare on the compact spelling too
			var ib2 bytes.Buffer
			err2 := zj.Indent(&ib2, compactWant, "", ind)
			if err2 != nil || !bytes.Equal(ib2.Bytes(), wantI) {
				c.viol("texts", "indent-differs", "indent-differs", fmt.Sprintf("Indent(%q, %q) = %q err=%v, independent indentation %q", compactWant, ind, ib2.Bytes(), err2, wantI), cc)
			}
		}
	}
	var hb, sb bytes.Buffer
	zj.HTMLEscape(&hb, []byte(t))
	stdjson.HTMLEscape(&sb, []byte(t))
	atomic.AddInt64(c.n, 2)
	if !bytes.Equal(hb.Bytes(), sb.Bytes()) {
		c.viol("texts", "htmlescape-differs-from-stdlib", "htmlescape-differs-from-stdlib", fmt.Sprintf("HTMLEscape(%q) = %q, encoding/json gives %q", t, hb.Bytes(), sb.Bytes()), cc)
	}
	if got, err := rj.Parse(hb.Bytes()); err != nil || !rj.Equal(got, want) {
		c.viol("texts", "htmlescape-changes-value", "htmlescape-changes-value", fmt.Sprintf("HTMLEscape(%q) = %q no longer denotes the same value", t, hb.Bytes()), cc)
	}
	if raw := rawFive(hb.Bytes()); raw != "" {
		c.viol("texts", "htmlescape-leaves-raw", "htmlescape-leaves-raw", fmt.Sprintf("HTMLEscape(%q) = %q still contains %s", t, hb.Bytes(), raw), cc)
	}
	// the escape switch changes nothing but the five spellings
	if e1 == nil {
		a, ea := zj.Marshal(v1)
		b, eb := zj.MarshalEscaped(v1, false)
		atomic.AddInt64(c.n, 1)
		if (ea == nil) != (eb == nil) {
			c.viol("texts", "escape-switch-changes-more", "escape-switch-changes-more", fmt.Sprintf("Marshal err=%v MarshalEscaped(false) err=%v on %q", ea, eb, t), cc)
		} else if ea == nil {
			var eb2 bytes.Buffer
			stdjson.HTMLEscape(&eb2, b)
			if !bytes.Equal(eb2.Bytes(), a) {
				c.viol("texts", "escape-switch-changes-more", "escape-switch-changes-more", fmt.Sprintf("Marshal=%q but HTML-escaping MarshalEscaped(false)=%q gives %q", a, b, eb2.Bytes()), cc)
			}
		}
	}
}

// ---------- part 2: Go values against encoding/json ----------

type typeSpec struct {
	t    reflect.Type
	vals []reflect.Value
}

func mk(vs ...interface{}) []reflect.Value {
	out := make([]reflect.Value, len(vs))
	for i, v := range vs {
		out[i] = reflect.ValueOf(v)
	}
	return out
}

func baseTypes() []typeSpec {
	var iface interface{}
	anyT := reflect.TypeOf(&iface).Elem()
	anyVals := []reflect.Value{reflect.Zero(anyT)}
	for _, x := range []interface{}{1.5, "s<", true, []interface{}{1.0, "x", nil}, map[string]interface{}{"b": 1.0, "a": nil}, int64(7)} {
		v := reflect.New(anyT).Elem()
		v.Set(reflect.ValueOf(x))
		anyVals = append(anyVals, v)
	}
	return []typeSpec{
		{reflect.TypeOf(false), mk(false, true)},
		{reflect.TypeOf(int(0)), mk(0, 1, -7, math.MaxInt64)},
		{reflect.TypeOf(int8(0)), mk(int8(0), int8(-128))},
		{reflect.TypeOf(uint16(0)), mk(uint16(0), uint16(65535))},
		{reflect.TypeOf(float32(0)), mk(float32(0), float32(math.Copysign(0, -1)), float32(1e-7), float32(3e21), float32(1.5))},
		{reflect.TypeOf(float64(0)), mk(0.0, math.Copysign(0, -1), 1e-7, 1e21, 1.5, 2.5e-9, 100.0, math.NaN(), math.Inf(1), math.MaxFloat64)},
		{reflect.TypeOf(""), mk("", "a", "<&>", "  ", "\xff\xfe", "\b\f\n\x00\x7f", "é\U0001F600", `"\`)},
		{reflect.TypeOf([]byte(nil)), mk([]byte(nil), []byte{}, []byte("hi?>"))},
		{anyT, anyVals},
	}
}

func first(vs []reflect.Value, n int) []reflect.Value {
	if len(vs) > n {
		return vs[:n]
	}
	return vs
}

// derive builds pointer, slice, array and map types over ts.
func derive(ts []typeSpec) []typeSpec {
	var out []typeSpec
	for _, s := range ts {
		t := s.t
		v := first(s.vals, 3)
		// pointer
		pt := reflect.PtrTo(t)
		pv := []reflect.Value{reflect.Zero(pt)}
		for _, x := range first(v, 2) {
			p := reflect.New(t)
			p.Elem().Set(x)
			pv = append(pv, p)
		}
		out = append(out, typeSpec{pt, pv})
		// slice
		st := reflect.SliceOf(t)
		sv := []reflect.Value{reflect.Zero(st), reflect.MakeSlice(st, 0, 0)}
		one := reflect.MakeSlice(st, 1, 1)
		one.Index(0).Set(v[0])
		sv = append(sv, one)
		if len(v) > 1 {
			two := reflect.MakeSlice(st, 2, 2)
			two.Index(0).Set(v[1])
			two.Index(1).Set(v[len(v)-1])
			sv = append(sv, two)
		}
		out = append(out, typeSpec{st, sv})
		// array
		at := reflect.ArrayOf(2, t)
		av := reflect.New(at).Elem()
		av.Index(0).Set(v[0])
		av.Index(1).Set(v[len(v)-1])
		out = append(out, typeSpec{at, []reflect.Value{reflect.Zero(at), av}})
		// maps
		for _, kt := range []reflect.Type{reflect.TypeOf(""), reflect.TypeOf(int(0))} {
			mt := reflect.MapOf(kt, t)
			mv := []reflect.Value{reflect.Zero(mt), reflect.MakeMap(mt)}
			m := reflect.MakeMap(mt)
			k1, k2 := reflect.ValueOf("b<"), reflect.ValueOf("a")
			if kt.Kind() == reflect.Int {
				k1, k2 = reflect.ValueOf(10), reflect.ValueOf(-2)
			}
			m.SetMapIndex(k1, v[0])
			m.SetMapIndex(k2, v[len(v)-1])
			mv = append(mv, m)
			out = append(out, typeSpec{mt, mv})
		}
	}
	return out
}

var structTags = []string{``, `json:"c_d"`, `json:"x"`, `json:"x,omitempty"`, `json:",string"`, `json:"-"`, `json:"-,"`, `json:",omitempty"`, `json:"b"`}

// structsOver builds struct types with 1-2 tagged fields (and one with an embedded struct).
func structsOver(ts []typeSpec, max int) []typeSpec {
	var out []typeSpec
	mkStruct := func(fields []reflect.StructField, vals [][]reflect.Value) {
		defer func() { recover() }() // reflect.StructOf rejects a few combinations
		st := reflect.StructOf(fields)
		vs := []reflect.Value{reflect.Zero(st)}
		n := 1
		for _, v := range vals {
			if len(v) > n {
				n = len(v)
			}
		}
		if n > 3 {
			n = 3
		}
		for i := 0; i < n; i++ {
			x := reflect.New(st).Elem()
			for f := range fields {
				x.Field(f).Set(vals[f][(i+f)%len(vals[f])])
			}
			vs = append(vs, x)
		}
		out = append(out, typeSpec{st, vs})
	}
	for i, a := range ts {
		if i >= max {
			break
		}
		for _, tag := range structTags {
			mkStruct([]reflect.StructField{{Name: "A", Type: a.t, Tag: reflect.StructTag(tag)}}, [][]reflect.Value{a.vals})
		}
		// two fields, second one colliding with / shadowing the first by name
		b := ts[(i+1)%len(ts)]
		for _, tags := range [][2]string{{`json:"x"`, `json:"x"`}, {``, `json:"A"`}, {`json:"b,omitempty"`, ``}, {`json:",string"`, `json:"-"`}, {``, `json:"a"`}} {
			mkStruct([]reflect.StructField{{Name: "A", Type: a.t, Tag: reflect.StructTag(tags[0])}, {Name: "B", Type: b.t, Tag: reflect.StructTag(tags[1])}},
				[][]reflect.Value{a.vals, b.vals})
		}
	}
	// embedding: struct{ E; A int } where E = struct{ A string; C bool }
	func() {
		defer func() { recover() }()
		e := reflect.StructOf([]reflect.StructField{{Name: "A", Type: reflect.TypeOf("")}, {Name: "C", Type: reflect.TypeOf(false), Tag: `json:"c,omitempty"`}})
		ev := reflect.New(e).Elem()
		ev.Field(0).SetString("inner")
		ev.Field(1).SetBool(true)
		for _, outerHasA := range []bool{true, false} {
			fields := []reflect.StructField{{Name: "E", Type: e, Anonymous: true}}
			vals := [][]reflect.Value{{reflect.Zero(e), ev}}
			if outerHasA {
				fields = append(fields, reflect.StructField{Name: "A", Type: reflect.TypeOf(0)})
				vals = append(vals, mk(0, 5))
			}
			mkStruct(fields, vals)
		}
	}()
	return out
}

var decodeTexts = []string{`{"own":1,"Z":3,"w":"w","X":5,"Y":2,"v":7,"V":8}`, `{"X":"str","Z":null,"w":null}`, `null`, `true`, `1`, `-1.5`, `1e3`, `300`, `1.0`, `"s"`, `"1"`, `"aGk="`, `""`, `[]`, `[1,2,3]`, `[null]`, `["a",null]`, `{}`,
	`{"x":1,"A":2,"a":3,"B":null}`, `{"x":"1","A":"2"}`, `{"A":{"A":"in"},"c":true}`, `{"10":1,"-2":null,"b<":2}`, `{"a":[1],"b":{"c":null}}`, `[[1],[2,3]]`, `12345678901234567890`, `{"a":1,"b":2,"c":"y","z":true,"A2":"t"}`, `{"b":"wrong type","a":5}`, "{\"c\u007fd\":5,\"C_D\":6}", `{"c\u007fd":7}`, `{"x":7,"y":null,"z":8,"A":null}`,
	`{"v":{"n<":5},"p":[1],"pv":"str","t":"txt","tp":"p","m":{"k":1},"i":{"a":1.50},"s":[{},1],"mm":{"q":[2],"z":null}}`, `"plain text"`, `[7 ,8]`}

// numberBoundaryTexts: for every numeric kind of the type domain the literals at min-1, min, max, max+1,
// the float32 / float64 overflow, underflow and rounding-tie points (a literal closer to a float32 tie than a
// float64 can resolve: parsing at 64 bits and narrowing rounds twice), exponent spellings - bare, quoted (the
// ,string option), in an array, and as the members a struct field / map entry of the domain would read.
var numberBoundaryTextsCache []string

func numberBoundaryTexts() []string {
	if numberBoundaryTextsCache != nil {
		return numberBoundaryTextsCache
	}
	lits := []string{"127", "128", "-128", "-129", "255", "256", "65535", "65536", "-1", "2147483647", "2147483648", "4294967296",
		"9223372036854775807", "9223372036854775808", "-9223372036854775808", "-9223372036854775809", "18446744073709551615", "18446744073709551616",
		"3.4028235e+38", "3.4028234663852886e+38", "3.4028235677973366e+38", "3.4028236e+38", "3.5e38", "1e-45", "1e-46", "7e-46",
		"1.00000005960464477539062500001", "1.000000059604644775390625", "16777217.0000000000000001", "16777217", "16777216.999999999",
		"1.7976931348623157e308", "1.7976931348623159e308", "1e309", "4.9e-324", "2e-324", "2.4703282292062328e-324",
		"9007199254740993", "0.1e1", "1E2", "1.0e+2", "-0.0", "-0", "1e-7", "123456789012345678901234567890", "1e05", "2.5E+05", "1e-07", "0.0e00", "1e007", "10E-01"}
	var out []string
	for _, l := range lits {
		out = append(out, l, `"`+l+`"`, `[`+l+`]`, `{"A":`+l+`}`, `{"A":"`+l+`"}`, `{"x":`+l+`,"b<":`+l+`}`, `{"10":`+l+`}`)
	}
	numberBoundaryTextsCache = out
	return out
}

// pointerChains: **T and ***T over the primitive kinds (the ,string option looks through ONE pointer only),
// nil at every level of the chain and fully set.
func pointerChains(base []typeSpec) []typeSpec {
	var out []typeSpec
	for _, b := range base {
		switch b.t.Kind() {
		case reflect.Bool, reflect.Int, reflect.Int8, reflect.Uint16, reflect.Float32, reflect.Float64, reflect.String:
		default:
			continue
		}
		cur := typeSpec{b.t, first(b.vals, 2)}
		for level := 0; level < 3; level++ {
			pt := reflect.PtrTo(cur.t)
			pv := []reflect.Value{reflect.Zero(pt)}
			for _, x := range cur.vals {
				p := reflect.New(cur.t)
				p.Elem().Set(x)
				pv = append(pv, p)
			}
			cur = typeSpec{pt, first(pv, 4)}
			if level >= 1 {
				out = append(out, cur)
			}
		}
	}
	return out
}

// norm turns a decoded Go value into a comparable text, unifying the two Number types.
func norm(v reflect.Value, sb *strings.Builder, depth int) {
	if depth > 12 {
		sb.WriteString("<deep>")
		return
	}
	if !v.IsValid() {
		sb.WriteString("<invalid>")
		return
	}
	switch v.Kind() {
	case reflect.Interface, reflect.Ptr:
		if v.IsNil() {
			sb.WriteString("nil")
			return
		}
		sb.WriteString("&")
		norm(v.Elem(), sb, depth+1)
	case reflect.String:
		if tn := v.Type().Name(); tn == "Number" {
			sb.WriteString("Number(" + v.String() + ")")
		} else {
			fmt.Fprintf(sb, "%q", v.String())
		}
	case reflect.Slice:
		if v.IsNil() {
			sb.WriteString("nilslice")
			return
		}
		fallthrough
	case reflect.Array:
		sb.WriteString("[")
		for i := 0; i < v.Len(); i++ {
			norm(v.Index(i), sb, depth+1)
			sb.WriteString(",")
		}
		sb.WriteString("]")
	case reflect.Map:
		if v.IsNil() {
			sb.WriteString("nilmap")
			return
		}
		var es []string
		for _, k := range v.MapKeys() {
			var kb, vb strings.Builder
			norm(k, &kb, depth+1)
			norm(v.MapIndex(k), &vb, depth+1)
			es = append(es, kb.String()+":"+vb.String())
		}
		sort.Strings(es)
		sb.WriteString("map{" + strings.Join(es, ",") + "}")
	case reflect.Struct:
		sb.WriteString("{")
		for i := 0; i < v.NumField(); i++ {
			norm(v.Field(i), sb, depth+1)
			sb.WriteString(";")
		}
		sb.WriteString("}")
	case reflect.Float32, reflect.Float64:
		fmt.Fprintf(sb, "%v", math.Float64bits(v.Float()))
	default:
		fmt.Fprintf(sb, "%v", v.Interface())
	}
}

func normText(v reflect.Value) string {
	var sb strings.Builder
	norm(v, &sb, 0)
	return sb.String()
}

// normBF rewrites the short escapes \b and \f inside JSON strings as \u0008 / \u000c
// (their spelling differs between Go releases; the property names this normalisation).
func normBF(b []byte) []byte {
	var out []byte
	in := false
	for i := 0; i < len(b); i++ {
		c := b[i]
		if in && c == '\\' && i+1 < len(b) {
			switch b[i+1] {
			case 'b':
				out = append(out, `\u0008`...)
			case 'f':
				out = append(out, `\u000c`...)
			default:
				out = append(out, c, b[i+1])
			}
			i++
			continue
		}
		if c == '"' {
			in = !in
		}
		out = append(out, c)
	}
	return out
}

// deepCopyValue clones v (so that both codecs decode into equal but separate pre-filled targets).
func deepCopyValue(v reflect.Value) reflect.Value {
	out := reflect.New(v.Type()).Elem()
	switch v.Kind() {
	case reflect.Ptr:
		if !v.IsNil() {
			p := reflect.New(v.Type().Elem())
			p.Elem().Set(deepCopyValue(v.Elem()))
			out.Set(p)
		}
	case reflect.Interface:
		if !v.IsNil() {
			out.Set(deepCopyValue(v.Elem()))
		}
	case reflect.Slice:
		if !v.IsNil() {
			s := reflect.MakeSlice(v.Type(), v.Len(), v.Len())
			for i := 0; i < v.Len(); i++ {
				s.Index(i).Set(deepCopyValue(v.Index(i)))
			}
			out.Set(s)
		}
	case reflect.Array:
		for i := 0; i < v.Len(); i++ {
			out.Index(i).Set(deepCopyValue(v.Index(i)))
		}
	case reflect.Map:
		if !v.IsNil() {
			m := reflect.MakeMap(v.Type())
			for _, k := range v.MapKeys() {
				m.SetMapIndex(k, deepCopyValue(v.MapIndex(k)))
			}
			out.Set(m)
		}
	case reflect.Struct:
		out.Set(v) // value copy (covers unexported embedded structs)
		for i := 0; i < v.NumField(); i++ {
			if out.Field(i).CanSet() {
				out.Field(i).Set(deepCopyValue(v.Field(i)))
			}
		}
	default:
		out.Set(v)
	}
	return out
}

// embedding three levels deep, by value and by pointer (field index paths of length 4)
type embLeaf struct {
	A int    `json:"a"`
	B int    `json:"b"`
	C string `json:"c,omitempty"`
}
type embL2 struct{ embLeaf }
type embL1 struct{ embL2 }
type embTop struct {
	embL1
	Z bool `json:"z"`
}
type EmbLeafP struct {
	A int `json:"a"`
	B int `json:"b"`
}
type EmbL2P struct{ *EmbLeafP }
type EmbL1P struct{ *EmbL2P }
type EmbTopP struct {
	*EmbL1P
	A string `json:"A2"`
}

// types with their own (un)marshalling methods: the codec must call them exactly as encoding/json does
type mJSONVal struct{ N int }

func (m mJSONVal) MarshalJSON() ([]byte, error) { return []byte(fmt.Sprintf(`{"n<":%d}`, m.N)), nil }

type mJSONPtr struct{ N int }

func (m *mJSONPtr) MarshalJSON() ([]byte, error) {
	return []byte(fmt.Sprintf(` [ %d ,"&"] `, m.N)), nil
}
func (m *mJSONPtr) UnmarshalJSON(b []byte) error {
	if len(b) > 0 && b[0] == '"' {
		return fmt.Errorf("mJSONPtr: strings refused")
	}
	m.N = len(b)
	return nil
}

type mText struct{ S string }

func (m mText) MarshalText() ([]byte, error) { return []byte("t<" + m.S), nil }
func (m *mText) UnmarshalText(b []byte) error {
	m.S = "got:" + string(b)
	return nil
}

type mErr struct{ Fail bool }

func (m mErr) MarshalJSON() ([]byte, error) {
	if m.Fail {
		return nil, fmt.Errorf("mErr refuses")
	}
	return []byte(`{"ok":`), nil // invalid JSON from a Marshaler: both codecs must reject it
}

type mHolder struct {
	V  mJSONVal             `json:"v"`
	P  *mJSONPtr            `json:"p,omitempty"`
	PV mJSONPtr             `json:"pv"`
	T  mText                `json:"t"`
	TP *mText               `json:"tp"`
	M  map[mText]int        `json:"m,omitempty"`
	I  interface{}          `json:"i"`
	S  []mJSONVal           `json:"s"`
	MM map[string]*mJSONPtr `json:"mm"`
}

func methodTypes() []typeSpec {
	h := mHolder{V: mJSONVal{1}, P: &mJSONPtr{2}, PV: mJSONPtr{3}, T: mText{"a&"}, TP: &mText{"b"}, M: map[mText]int{{"k2"}: 2, {"k1"}: 1},
		I: mJSONVal{4}, S: []mJSONVal{{5}, {6}}, MM: map[string]*mJSONPtr{"x": {7}, "n": nil}}
	return []typeSpec{
		{reflect.TypeOf(mJSONVal{}), mk(mJSONVal{}, mJSONVal{-1})},
		{reflect.TypeOf(&mJSONVal{}), mk((*mJSONVal)(nil), &mJSONVal{9})},
		{reflect.TypeOf(mJSONPtr{}), mk(mJSONPtr{}, mJSONPtr{8})},
		{reflect.TypeOf(&mJSONPtr{}), mk((*mJSONPtr)(nil), &mJSONPtr{8})},
		{reflect.TypeOf(mText{}), mk(mText{}, mText{"x\"y"})},
		{reflect.TypeOf(&mText{}), mk((*mText)(nil), &mText{"z"})},
		{reflect.TypeOf(mErr{}), mk(mErr{}, mErr{true})},
		{reflect.TypeOf(map[mText]mJSONVal{}), mk(map[mText]mJSONVal(nil), map[mText]mJSONVal{{"b"}: {1}, {"a"}: {2}})},
		{reflect.TypeOf([]*mJSONPtr{}), mk([]*mJSONPtr(nil), []*mJSONPtr{{1}, nil, {2}})},
		{reflect.TypeOf(mHolder{}), mk(mHolder{}, h)},
		{reflect.TypeOf(&mHolder{}), mk(&h)},
	}
}

// embedding SHAPES (Go's dominant-field rule): one struct reached along two and three paths at the same depth
// (by value and through a pointer) that itself embeds another struct, a shallower field shadowing the
// ambiguous one, a tagged field against an untagged one of the same name at the same depth.
type DLeaf struct {
	Z int
	W string `json:"w"`
}
type DMid struct {
	X int
	DLeaf
}
type DA struct{ DMid }
type DB struct{ *DMid }
type DC struct {
	DMid
	Y int
}
type dTop2 struct {
	Own int `json:"own"`
	DA
	DB
}
type dTop3 struct {
	DA
	DB
	DC
}
type dShadow struct {
	X string
	DA
	DB
}
type DTagged struct {
	X int `json:"X"`
	V int `json:"v"`
}
type DPlain struct {
	X int
	V int
}
type dTagTop struct {
	DTagged
	DPlain
}
type dTwoPlain struct {
	DPlain
	DMid
}

func embeddedTypes() []typeSpec {
	mid := DMid{X: 5, DLeaf: DLeaf{Z: 3, W: "w"}}
	shapes := []typeSpec{
		{reflect.TypeOf(dTop2{}), mk(dTop2{}, dTop2{Own: 1, DA: DA{mid}, DB: DB{&mid}}, dTop2{Own: 1, DA: DA{mid}})},
		{reflect.TypeOf(dTop3{}), mk(dTop3{}, dTop3{DA: DA{mid}, DB: DB{&mid}, DC: DC{mid, 2}})},
		{reflect.TypeOf(dShadow{}), mk(dShadow{}, dShadow{X: "top", DA: DA{mid}, DB: DB{&mid}})},
		{reflect.TypeOf(dTagTop{}), mk(dTagTop{}, dTagTop{DTagged{1, 2}, DPlain{3, 4}})},
		{reflect.TypeOf(dTwoPlain{}), mk(dTwoPlain{}, dTwoPlain{DPlain{3, 4}, mid})},
		{reflect.TypeOf(DC{}), mk(DC{}, DC{mid, 2})},
	}
	return append(shapes, embeddedTypesBase()...)
}

func embeddedTypesBase() []typeSpec {
	v1 := embTop{Z: true}
	v1.A, v1.B, v1.C = 11, 22, "x"
	p1 := EmbTopP{EmbL1P: &EmbL1P{&EmbL2P{&EmbLeafP{A: 11, B: 22}}}, A: "top"}
	return []typeSpec{
		{reflect.TypeOf(embTop{}), mk(embTop{}, v1)},
		{reflect.TypeOf(EmbTopP{}), mk(EmbTopP{}, p1)},
		{reflect.TypeOf(embL1{}), mk(embL1{}, v1.embL1)},
	}
}

func (c *codecRun) typeList() []typeSpec {
	base := baseTypes()
	d1 := derive(base)
	all := append(append([]typeSpec(nil), base...), d1...)
	all = append(all, structsOver(append(append([]typeSpec(nil), base...), d1[:10]...), 18)...)
	// depth 2: derived over a selection of depth-1 types and over structs
	sel := []typeSpec{}
	for i, s := range d1 {
		if i%2 == 0 || c.tier == "thorough" {
			sel = append(sel, s)
		}
	}
	st := structsOver(base, 3)
	sel = append(sel, st[:min(len(st), 12)]...)
	d2 := derive(sel)
	all = append(all, d2...)
	all = append(all, embeddedTypes()...)
	all = append(all, methodTypes()...)
	chains := pointerChains(base)
	all = append(all, chains...)
	all = append(all, structsOver(chains, len(chains))...)
	if c.tier == "thorough" {
		all = append(all, structsOver(d1, len(d1))...)
		d3sel := []typeSpec{}
		for i, s := range d2 {
			if i%7 == 0 {
				d3sel = append(d3sel, s)
			}
		}
		all = append(all, derive(d3sel)...)
	}
	return all
}

func min(a, b int) int {
	if a < b {
		return a
	}
	return b
}

// numberValues: the two Number types are distinct, so these values are built twice.
func (c *codecRun) numberValues() {
	for _, lit := range []string{"12.50", "-0", "1e400", "", "1x", "12345678901234567890123"} {
		forks := []interface{}{zj.Number(lit), []interface{}{zj.Number(lit)}, map[string]interface{}{"n": zj.Number(lit)}, struct {
			N zj.Number `json:"n,omitempty"`
		}{zj.Number(lit)}}
		stds := []interface{}{stdjson.Number(lit), []interface{}{stdjson.Number(lit)}, map[string]interface{}{"n": stdjson.Number(lit)}, struct {
			N stdjson.Number `json:"n,omitempty"`
		}{stdjson.Number(lit)}}
		for i := range forks {
			fb, fe := zj.Marshal(forks[i])
			sb, se := stdjson.Marshal(stds[i])
			atomic.AddInt64(c.n, 1)
			c.ctx.AddState(fmt.Sprintf("number:%s:%d", lit, i))
			if (fe == nil) != (se == nil) || (fe == nil && !bytes.Equal(fb, sb)) {
				c.viol("values", "marshal-bytes-differ", "marshal-bytes-differ:Number", fmt.Sprintf("Marshal of Number(%q) in shape %d: fork %q err=%v, encoding/json %q err=%v", lit, i, fb, fe, sb, se),
					CodecCase{What: "marshal Number", Val: lit})
			}
		}
	}
}

func (c *codecRun) partValues() {
	c.numberValues()
	types := c.typeList()
	c.ctx.Count("go_types", int64(len(types)))
	nvals := c.ctx.Counter("go_values")
	ndec := c.ctx.Counter("decode_comparisons")
	zs.Reset()
	for ti, ts := range types {
		tn := ts.t.String()
		var texts []string
		seen := map[string]bool{}
		for _, v := range ts.vals {
			atomic.AddInt64(nvals, 1)
			c.ctx.AddState("val:" + tn + ":" + normText(v))
			b := c.marshalCompare(tn, v)
			if b != nil && !seen[string(b)] {
				seen[string(b)] = true
				texts = append(texts, string(b))
			}
		}
		for _, t := range decodeTexts {
			if !seen[t] {
				seen[t] = true
				texts = append(texts, t)
			}
		}
		if strings.Contains(tn, "int") || strings.Contains(tn, "float") {
			for _, t := range numberBoundaryTexts() {
				if !seen[t] {
					seen[t] = true
					texts = append(texts, t)
				}
			}
		}
		// decode every text into a zero target and into each pre-filled target
		targets := []reflect.Value{reflect.Zero(ts.t)}
		targets = append(targets, first(ts.vals, 3)...)
		for _, t := range texts {
			for _, pre := range targets {
				atomic.AddInt64(ndec, 1)
				c.decodeCompare(tn, ts.t, pre, t)
			}
		}
		// key lists into TYPED maps: the member names of the outermost object, in document order, whatever the
		// element type decodes on the way (nested maps, structs holding maps)
		if ts.t.Kind() == reflect.Map && ts.t.Key().Kind() == reflect.String {
			for _, t := range append(append([]string(nil), texts...), `{"zeta":{"k":1},"alpha":{},"middle":{"k2":2,"k":3}}`, `{"b":{"x":{"y":1}},"a":{"x":{}}}`, `{"z":[{"k":1}],"a":[]}`) {
				want, err := rj.Parse([]byte(t))
				if err != nil || want.K != rj.Obj || rj.HasDup(want) {
					continue
				}
				names := make([]string, len(want.O))
				for i, m := range want.O {
					names[i] = m.Name
				}
				for _, fn := range []string{"UnmarshalWithKeys", "UnmarshalValidWithKeys"} {
					target := reflect.New(ts.t)
					var keys []string
					var derr error
					p := safeCall(func() {
						if fn == "UnmarshalWithKeys" {
							keys, derr = zj.UnmarshalWithKeys([]byte(t), target.Interface())
						} else {
							keys, derr = zj.UnmarshalValidWithKeys([]byte(t), target.Interface())
						}
					})
					atomic.AddInt64(c.n, 1)
					if p != "" {
						c.viol("values", "unmarshal-panics", "unmarshal-panics:"+fn, fmt.Sprintf("%s(%q) into %s panics: %s", fn, t, tn, p), CodecCase{What: "keys", Type: tn, Text: t})
					} else if derr == nil && fmt.Sprintf("%q", keys) != fmt.Sprintf("%q", names) {
						c.viol("values", "keys-not-in-document-order", "keys-not-in-document-order:"+fn+":typed", fmt.Sprintf("%s(%q) into %s reports keys %q, document order is %q", fn, t, tn, keys, names), CodecCase{What: "keys", Type: tn, Text: t})
					}
				}
			}
		}
		if ti%(len(types)/6+1) == 0 && len(ts.vals) > 1 {
			sb, _ := stdjson.Marshal(ts.vals[len(ts.vals)-1].Interface())
			c.ctx.Sample(map[string]string{"go_type": tn, "value_as_encoding_json_spells_it": string(sb)}, 16)
		}
	}
}

func safeCall(f func()) (p string) {
	defer func() {
		if r := recover(); r != nil {
			p = fmt.Sprint(r)
		}
	}()
	f()
	return
}

func (c *codecRun) marshalCompare(tn string, v reflect.Value) []byte {
	x := v.Interface()
	cc := CodecCase{What: "marshal", Type: tn, Val: normText(v)}
	type res struct {
		b   []byte
		err error
		p   string
	}
	run := func(f func() ([]byte, error)) (r res) {
		r.p = safeCall(func() { r.b, r.err = f() })
		return
	}
	cmp := func(fn string, fork, std res) {
		atomic.AddInt64(c.n, 1)
		if fork.p != "" || std.p != "" {
			if (fork.p != "") != (std.p != "") {
				c.viol("values", "marshal-panic-differs", "marshal-panic-differs:"+fn, fmt.Sprintf("%s(%s %s): fork panic=%q, encoding/json panic=%q", fn, tn, cc.Val, fork.p, std.p), cc)
			}
			return
		}
		if (fork.err == nil) != (std.err == nil) {
			c.viol("values", "marshal-error-differs", "marshal-error-differs:"+fn, fmt.Sprintf("%s(%s %s): fork err=%v, encoding/json err=%v", fn, tn, cc.Val, fork.err, std.err), cc)
			return
		}
		if fork.err == nil && !bytes.Equal(normBF(fork.b), normBF(std.b)) {
			c.viol("values", "marshal-bytes-differ", "marshal-bytes-differ:"+fn, fmt.Sprintf("%s(%s %s): fork %q, encoding/json %q", fn, tn, cc.Val, fork.b, std.b), cc)
		}
	}
	fm := run(func() ([]byte, error) { return zj.Marshal(x) })
	sm := run(func() ([]byte, error) { return stdjson.Marshal(x) })
	cmp("Marshal", fm, sm)
	cmp("MarshalIndent", run(func() ([]byte, error) { return zj.MarshalIndent(x, ">", "\t") }), run(func() ([]byte, error) { return stdjson.MarshalIndent(x, ">", "\t") }))
	cmp("MarshalEscaped(false)", run(func() ([]byte, error) { return zj.MarshalEscaped(x, false) }), run(func() ([]byte, error) {
		var b bytes.Buffer
		e := stdjson.NewEncoder(&b)
		e.SetEscapeHTML(false)
		if err := e.Encode(x); err != nil {
			return nil, err
		}
		return bytes.TrimSuffix(b.Bytes(), []byte("\n")), nil
	}))
	// Encoder, every setting
	for _, esc := range []bool{true, false} {
		for _, ind := range [][2]string{{"", ""}, {"", " "}, {"p", "\t"}, {">", ""}} {
			f := run(func() ([]byte, error) {
				var b bytes.Buffer
				e := zj.NewEncoder(&b)
				e.SetEscapeHTML(esc)
				e.SetIndent(ind[0], ind[1])
				err := e.Encode(x)
				return b.Bytes(), err
			})
			s := run(func() ([]byte, error) {
				var b bytes.Buffer
				e := stdjson.NewEncoder(&b)
				e.SetEscapeHTML(esc)
				e.SetIndent(ind[0], ind[1])
				err := e.Encode(x)
				return b.Bytes(), err
			})
			cmp(fmt.Sprintf("Encoder(escape=%v,indent=%q/%q)", esc, ind[0], ind[1]), f, s)
		}
	}
	if sm.err == nil && sm.p == "" {
		return sm.b
	}
	return nil
}

func (c *codecRun) decodeCompare(tn string, t reflect.Type, pre reflect.Value, text string) {
	cc := CodecCase{What: "unmarshal", Type: tn, Val: normText(pre), Text: text}
	fp := reflect.New(t)
	fp.Elem().Set(deepCopyValue(pre))
	sp := reflect.New(t)
	sp.Elem().Set(deepCopyValue(pre))
	var ferr, serr error
	fpan := safeCall(func() { ferr = zj.Unmarshal([]byte(text), fp.Interface()) })
	span := safeCall(func() {
		d := stdjson.NewDecoder(strings.NewReader(text))
		d.UseNumber()
		serr = d.Decode(sp.Interface())
	})
	atomic.AddInt64(c.n, 1)
	if fpan != "" || span != "" {
		if (fpan != "") != (span != "") {
			c.viol("values", "unmarshal-panic-differs", "unmarshal-panic-differs", fmt.Sprintf("Unmarshal(%q) into %s (pre-filled %s): fork panic=%q, encoding/json panic=%q", text, tn, cc.Val, fpan, span), cc)
		}
		return
	}
	if (ferr == nil) != (serr == nil) {
		c.viol("values", "unmarshal-error-differs", "unmarshal-error-differs", fmt.Sprintf("Unmarshal(%q) into %s (pre-filled %s): fork err=%v, encoding/json err=%v", text, tn, cc.Val, ferr, serr), cc)
		return
	}
	if a, b := normText(fp.Elem()), normText(sp.Elem()); a != b {
		c.viol("values", "unmarshal-value-differs", "unmarshal-value-differs", fmt.Sprintf("Unmarshal(%q) into %s (pre-filled %s): fork %s, encoding/json %s (errors: %v / %v)", text, tn, cc.Val, a, b, ferr, serr), cc)
	}
}

// ---------- part 3: streams ----------

var streams = []string{
	`{"a":[1,2,{"b":null}]} [true] "s"`,
	" 1 2.50 3",
	`[1,2`,
	`{"a":1}x`,
	`""`,
	"[[],{}]\nnull",
	"{\"k\":\"é<\"}\n{\"k\":2}",
	`{"a":{"b":"c"},"d":[1e2,"x"]}`,
	`[1, "two", 3] "tail"`,
}

// splitReader answers Read with the next chunk of a fixed split.
type splitReader struct {
	data []byte
	cuts []int
	pos  int
	k    int
}

func (r *splitReader) Read(p []byte) (int, error) {
	if r.pos >= len(r.data) {
		return 0, io.EOF
	}
	end := len(r.data)
	for r.k < len(r.cuts) && r.cuts[r.k] <= r.pos {
		r.k++
	}
	if r.k < len(r.cuts) {
		end = r.cuts[r.k]
	}
	n := copy(p, r.data[r.pos:end])
	r.pos += n
	return n, nil
}

type decLike interface {
	Decode(v interface{}) error
	More() bool
	Buffered() io.Reader
	InputOffset() int64
}

func tokText(t interface{}, err error) string {
	if err != nil {
		return "err"
	}
	switch x := t.(type) {
	case nil:
		return "null"
	case zj.Delim:
		return "delim" + string(rune(x))
	case stdjson.Delim:
		return "delim" + string(rune(x))
	case zj.Number:
		return "num" + string(x)
	case stdjson.Number:
		return "num" + string(x)
	case float64:
		return fmt.Sprintf("float%v", x)
	default:
		return fmt.Sprintf("%T:%v", t, t)
	}
}

func (c *codecRun) partStreams() {
	maxOps, maxCuts := 3, 2
	if c.tier == "thorough" {
		maxOps, maxCuts = 4, 2
	}
	ops := []string{"Decode", "Token", "More", "Buffered", "InputOffset", "DecodeInt"}
	var scripts [][]int
	var rec func(cur []int)
	rec = func(cur []int) {
		if len(cur) > 0 {
			scripts = append(scripts, append([]int(nil), cur...))
		}
		if len(cur) == maxOps {
			return
		}
		for i := range ops {
			rec(append(cur, i))
		}
	}
	rec(nil)
	nrun := c.ctx.Counter("stream_script_runs")
	for si, s := range streams {
		var cutSets [][]int
		cutSets = append(cutSets, nil)
		for i := 1; i < len(s); i++ {
			cutSets = append(cutSets, []int{i})
			if maxCuts >= 2 {
				for j := i + 1; j < len(s); j++ {
					cutSets = append(cutSets, []int{i, j})
				}
			}
		}
		for _, cuts := range cutSets {
			c.ctx.AddState(fmt.Sprintf("stream:%d:%v", si, cuts))
			for _, useNum := range []bool{true, false} {
				for _, sc := range scripts {
					atomic.AddInt64(nrun, 1)
					fd := zj.NewDecoder(&splitReader{data: []byte(s), cuts: cuts})
					sd := stdjson.NewDecoder(&splitReader{data: []byte(s), cuts: cuts})
					if useNum {
						fd.UseNumber()
						sd.UseNumber()
					}
					var trace []string
					for step, op := range sc {
						var a, b string
						pa := safeCall(func() {
							switch ops[op] {
							case "Decode":
								var v interface{}
								err := fd.Decode(&v)
								a = fmt.Sprintf("%v|%s", err != nil, normText(reflect.ValueOf(&v).Elem()))
							case "DecodeInt":
								var v int
								err := fd.Decode(&v)
								a = fmt.Sprintf("%v|%d", err != nil, v)
							case "Token":
								a = tokText(fd.Token())
							case "More":
								a = fmt.Sprint(fd.More())
							case "Buffered":
								x, _ := io.ReadAll(fd.Buffered())
								a = string(x)
							case "InputOffset":
								a = fmt.Sprint(fd.InputOffset())
							}
						})
						pb := safeCall(func() {
							switch ops[op] {
							case "Decode":
								var v interface{}
								err := sd.Decode(&v)
								b = fmt.Sprintf("%v|%s", err != nil, normText(reflect.ValueOf(&v).Elem()))
							case "DecodeInt":
								var v int
								err := sd.Decode(&v)
								b = fmt.Sprintf("%v|%d", err != nil, v)
							case "Token":
								b = tokText(sd.Token())
							case "More":
								b = fmt.Sprint(sd.More())
							case "Buffered":
								x, _ := io.ReadAll(sd.Buffered())
								b = string(x)
							case "InputOffset":
								b = fmt.Sprint(sd.InputOffset())
							}
						})
						atomic.AddInt64(c.n, 1)
						trace = append(trace, ops[op])
						if pa != pb || a != b {
							c.viol("streams", "decoder-differs-from-stdlib", "decoder-differs-from-stdlib:"+ops[op],
								fmt.Sprintf("stream %q split at %v, UseNumber=%v, script %v step %d: fork %q (panic %q), encoding/json %q (panic %q)", s, cuts, useNum, trace, step, a, pa, b, pb),
								CodecCase{What: fmt.Sprintf("script %v cuts %v useNumber %v", trace, cuts, useNum), Text: s})
							break
						}
					}
				}
			}
		}
	}
}

func codecReplay(ctx *core.Ctx, raw stdjson.RawMessage) {
	// the enumeration is cheap: a replay re-runs the part the case came from
	var cc CodecCase
	stdjson.Unmarshal(raw, &cc)
	c := &codecRun{ctx: ctx, n: ctx.Counter("comparisons"), tier: "quick"}
	zs.SetController(nil)
	switch cc.Part {
	case "texts":
		for _, fresh := range []bool{true, false} {
			if fresh {
				zs.Reset()
			}
			c.oneText(cc.Text, fresh)
		}
	case "values":
		c.partValues()
	default:
		c.partStreams()
	}
}
