package main

import (
	"bytes"
	"fmt"
	"strings"
	"sync/atomic"

	zj "github.com/evanphx/json-patch/v5/zzverifjson"

	"verif.local/h/core"
	"verif.local/h/impl"
	r73 "verif.local/h/ref7396"
	rj "verif.local/h/refjson"
)

// bytex: all byte strings up to a length, into every []byte parameter.

// Gamma16: the sub-alphabet for the un-pruned enumeration (every public entry point).
var Gamma16 = []byte(`{}[]:,"\0-.etna `)

// Gamma33: one representative per byte class the scanner/decoder distinguishes.
var Gamma33 = []byte("{}[]:,\"\\/01-+.eEtrufalsnbx \n\t\r\f\v\x00\x7f\x80\x85\xa0\xe2\xff")

type byteFlags struct {
	panics  bool // report panics
	reject  bool // ill-formed input must be rejected (v5)
	accept  bool // well-formed input of the right shape must be accepted (v5)
	eqOnly  bool // only Equal (C06)
	legacy  bool
	applyOK bool // include DecodePatch/Apply entry points
}

var otherTexts = []string{`{}`, `[]`, `{"a":1}`, `null`}

// judgeBytes feeds s to every []byte parameter and applies the enabled clauses.
func (m *mergeRun) judgeBytes(s string, f byteFlags) {
	v, perr := rj.Parse([]byte(s))
	valid := perr == nil
	if valid && rj.HasDup(v) {
		return // duplicate member names: outside every stated domain
	}
	bad := func(clause, fn string, r impl.R, detail string, args ...string) {
		key := clause + ":" + fn
		if r.Panic != "" {
			key = panicKey(r)
		}
		if clause == "accepts-ill-formed" && fn == "Apply" && s == "" {
			key = "accepts-ill-formed:Apply:empty-document"
		}
		m.viol(clause, key, fmt.Sprintf("%s(%s): %s", fn, strings.Join(quoteAll(args), ", "), detail), fn, args...)
	}
	check := func(fn string, pos int, r impl.R, other *rj.Value, args ...string) {
		if r.Panic != "" {
			if f.panics || f.reject {
				bad("panic", fn, r, "panics: "+r.Panic, args...)
			}
			return
		}
		if m.legacy {
			return
		}
		rejected := r.Err != ""
		if fn == "Equal" {
			rejected = !r.Bool
		}
		if !valid {
			if f.reject && !rejected {
				bad("accepts-ill-formed", fn, r, fmt.Sprintf("ill-formed input accepted: out=%q bool=%v", r.Out, r.Bool), args...)
			}
			return
		}
		if !f.accept || other == nil {
			return
		}
		// well-formed: the right shape must be accepted
		switch fn {
		case "Equal":
			want := rj.Equal(v, other)
			if pos == 1 {
				want = rj.Equal(other, v)
			}
			if r.Bool != want && !rj.EqualNumeric(v, other) {
				bad("equal-wrong", fn, r, fmt.Sprintf("= %v, structural equality is %v", r.Bool, want), args...)
			}
		case "MergePatch":
			d, p := v, other
			if pos == 1 {
				d, p = other, v
			}
			if d.K == rj.Null {
				return
			}
			got, why := outValue(r)
			if why != "" {
				bad("rejects-well-formed", fn, r, why, args...)
			} else if want := r73.Merge(d, p); !rj.Equal(got, want) {
				bad("wrong-merge", fn, r, fmt.Sprintf("= %s, reference %s", r.Out, rj.Text(want)), args...)
			}
		case "MergeMergePatches":
			p1, p2 := v, other
			if pos == 1 {
				p1, p2 = other, v
			}
			if p1.K == rj.Null {
				return
			}
			if _, why := outValue(r); why != "" && (p1.K == rj.Obj || p2.K != rj.Obj) {
				bad("rejects-well-formed", fn, r, why, args...)
			}
		case "CreateMergePatch":
			if v.K == rj.Obj && other.K == rj.Obj {
				if _, why := outValue(r); why != "" {
					bad("rejects-well-formed", fn, r, why, args...)
				}
			}
		}
	}
	parsedOthers := make([]*rj.Value, len(otherTexts))
	for i, o := range otherTexts {
		parsedOthers[i] = rj.MustParse(o)
	}
	others := append([]string{s}, otherTexts...)
	for i, o := range others {
		var ov *rj.Value
		if i == 0 {
			ov = v
		} else {
			ov = parsedOthers[i-1]
		}
		check("Equal", 0, m.Equal(s, o), ov, s, o)
		if i > 0 {
			check("Equal", 1, m.Equal(o, s), ov, o, s)
		}
		if f.eqOnly {
			continue
		}
		check("MergePatch", 0, m.MergePatch(s, o), ov, s, o)
		check("MergeMergePatches", 0, m.MergeMerge(s, o), ov, s, o)
		check("CreateMergePatch", 0, m.Create(s, o), ov, s, o)
		if i > 0 {
			check("MergePatch", 1, m.MergePatch(o, s), ov, o, s)
			check("MergeMergePatches", 1, m.MergeMerge(o, s), ov, o, s)
			check("CreateMergePatch", 1, m.Create(o, s), ov, o, s)
		}
	}
	if f.eqOnly || !f.applyOK {
		return
	}
	// s as a document, under the empty patch and a one-operation patch
	// (the last two replace the whole document first: the document must be validated all the same)
	for _, patch := range []string{`[]`, `[{"op":"test","path":"","value":1}]`, `[{"op":"add","path":"/a","value":1}]`,
		`[{"op":"replace","path":"","value":{"n":1}}]`, `[{"op":"add","path":"","value":[]},{"op":"add","path":"/-","value":1}]`} {
		m.tick("Apply", s, patch)
		var o impl.Obs
		call := impl.Call{Doc: []byte(s), Patch: []byte(patch), Opt: defaultOpt}
		if m.legacy {
			o = impl.V4Apply(call)
		} else {
			o = impl.V5Apply(call)
		}
		r := impl.R{Out: o.Out, Err: o.Err, Panic: o.Panic}
		if o.Panic != "" {
			if f.panics || f.reject {
				bad("panic", "Apply", r, "panics: "+o.Panic, s, patch)
			}
			continue
		}
		if m.legacy {
			continue
		}
		if !valid {
			if f.reject && o.Err == "" {
				bad("accepts-ill-formed", "Apply", r, fmt.Sprintf("ill-formed document accepted: out=%q", o.Out), s, patch)
			}
			continue
		}
		if f.accept && patch == `[]` && (v.K == rj.Obj || v.K == rj.Arr) {
			got, why := outValue(r)
			if why != "" {
				bad("rejects-well-formed", "Apply", r, why, s, patch)
			} else if !rj.EqualOrdered(got, v) {
				bad("empty-patch-not-identity", "Apply", r, fmt.Sprintf("= %s", o.Out), s, patch)
			}
		}
	}
	// s as a patch
	for _, doc := range []string{`{}`, `[]`} {
		m.tick("DecodePatch+Apply", doc, s)
		var o impl.Obs
		call := impl.Call{Doc: []byte(doc), Patch: []byte(s), Opt: defaultOpt}
		if m.legacy {
			o = impl.V4Apply(call)
		} else {
			o = impl.V5Apply(call)
		}
		r := impl.R{Out: o.Out, Err: o.Err + o.DecodeErr, Panic: o.Panic}
		if o.Panic != "" {
			if f.panics || f.reject {
				bad("panic", "DecodePatch", r, "panics: "+o.Panic, doc, s)
			}
			continue
		}
		if m.legacy {
			continue
		}
		if !valid && f.reject && o.DecodeErr == "" {
			bad("accepts-ill-formed", "DecodePatch", r, fmt.Sprintf("ill-formed patch accepted (Apply then gave out=%q err=%q)", o.Out, o.Err), doc, s)
		}
		if valid && (f.accept || f.reject) && v.K != rj.Null {
			want := ValidPatch(v)
			if want != (o.DecodeErr == "") {
				bad("decode-boundary", "DecodePatch", r, fmt.Sprintf("reference acceptance %v, DecodePatch error %q", want, o.DecodeErr), doc, s)
			}
		}
	}
}

func quoteAll(a []string) []string {
	out := make([]string, len(a))
	for i, s := range a {
		out[i] = fmt.Sprintf("%q", s)
	}
	return out
}

// allStrings enumerates every string over alpha of length <= n (prefix-closed DFS,
// sharded on the first two symbols).
func allStrings(ctx *core.Ctx, alpha []byte, n int, fn func(w *core.Worker, s []byte)) int64 {
	var count int64
	type unit struct{ pre []byte }
	var units []unit
	units = append(units, unit{nil})
	for _, a := range alpha {
		units = append(units, unit{[]byte{a}})
	}
	var roots []unit
	if n >= 2 {
		for _, a := range alpha {
			for _, b := range alpha {
				roots = append(roots, unit{[]byte{a, b}})
			}
		}
	}
	ctx.Parallel(len(units), func(w *core.Worker, i int) {
		fn(w, units[i].pre)
		atomic.AddInt64(&count, 1)
	})
	ctx.Parallel(len(roots), func(w *core.Worker, i int) {
		var rec func(s []byte)
		rec = func(s []byte) {
			fn(w, s)
			atomic.AddInt64(&count, 1)
			if len(s) >= n {
				return
			}
			for _, a := range alpha {
				rec(append(append([]byte(nil), s...), a))
			}
		}
		rec(roots[i].pre)
	})
	return count
}

func runBytexB(ctx *core.Ctx, id string, n int, f byteFlags) {
	m0 := &mergeRun{id: id, legacy: f.legacy, ctx: ctx}
	nv := ctx.Counter("strings_well_formed")
	cnt := allStrings(ctx, Gamma16, n, func(w *core.Worker, s []byte) {
		m := *m0
		m.w = w
		if rj.Valid(s) {
			atomic.AddInt64(nv, 1)
			ctx.AddState(string(s))
		}
		m.judgeBytes(string(s), f)
	})
	lib := "v5"
	if f.legacy {
		lib = "legacy"
	}
	ctx.Count("strings_enumerated_"+lib, cnt)
	ctx.Sample(map[string]interface{}{"bytex_b": fmt.Sprintf("every string over %q of length <= %d in every []byte parameter (%s)", Gamma16, n, lib), "example": `Equal("[n,", "{}")`}, 12)
}

func runEqualMalformed(ctx *core.Ctx, id, tier string) {
	n := 4
	if tier == "thorough" {
		n = 5
	}
	runBytexB(ctx, id, n, byteFlags{panics: true, reject: true, accept: true, eqOnly: true})
}

// ---- bytex(a): codec functions on all strings whose proper prefixes are viable ----

func codecAccepts(s []byte) map[string]bool {
	out := map[string]bool{}
	out["Valid"] = zj.Valid(s)
	var b bytes.Buffer
	out["Compact"] = zj.Compact(&b, s) == nil
	b.Reset()
	out["Indent"] = zj.Indent(&b, s, "", " ") == nil
	var v interface{}
	out["Unmarshal"] = zj.Unmarshal(s, &v) == nil
	var v2 interface{}
	_, err := zj.UnmarshalWithKeys(s, &v2)
	out["UnmarshalWithKeys"] = err == nil
	return out
}

// judgeCodec: the codec functions accept s exactly when the reference grammar does.
func (m *mergeRun) judgeCodec(s []byte) {
	want := rj.Valid(s)
	defer func() {
		if r := recover(); r != nil {
			m.viol("codec-panics", "codec-panics", fmt.Sprintf("codec function panics on %q: %v", trunc(string(s), 200), r), "codec", string(s), "")
		}
	}()
	for fn, got := range codecAccepts(s) {
		atomic.AddInt64(&nExec, 1)
		if got != want {
			m.viol("codec-language", "codec-language:"+fn, fmt.Sprintf("%s(%q): accepted=%v, RFC 8259 says %v", fn, trunc(string(s), 200), got, want), "codec:"+fn, string(s), "")
		}
	}
}

// runBytexA: DFS over strings viable in the reference PDA (plus each with one
// killing byte). Codec functions must accept exactly the reference language;
// accepted strings (with whitespace variants) go to the public entry points.
func runBytexA(ctx *core.Ctx, id string, n, nEntry int) {
	m0 := &mergeRun{id: id, ctx: ctx}
	nstr := ctx.Counter("viable_prefix_strings")
	nacc := ctx.Counter("accepted_strings")
	nkill := ctx.Counter("killed_strings")
	type unit struct {
		s []byte
		p *rj.PDA
	}
	var units []unit
	root := rj.NewPDA()
	for _, a := range Gamma33 {
		for _, b := range Gamma33 {
			p := root.Clone()
			p.Step(a)
			if p.Dead() {
				continue
			}
			p.Step(b)
			units = append(units, unit{[]byte{a, b}, p})
		}
	}
	one := func(m *mergeRun, s []byte, p *rj.PDA) {
		want := !p.Dead() && p.Accepts()
		if want != rj.Valid(s) {
			panic(fmt.Sprintf("harness bug: PDA and parser disagree on %q", s))
		}
		m.w.Tick(func() string { return fmt.Sprintf("codec functions on %q", s) })
		func() {
			defer func() {
				if r := recover(); r != nil {
					m.viol("codec-panics", "codec-panics", fmt.Sprintf("codec function panics on %q: %v", s, r), "codec", string(s), "")
				}
			}()
			for fn, got := range codecAccepts(s) {
				atomic.AddInt64(&nExec, 1)
				if got != want {
					m.viol("codec-language", "codec-language:"+fn, fmt.Sprintf("%s(%q): accepted=%v, RFC 8259 says %v", fn, s, got, want), "codec:"+fn, string(s), "")
				}
			}
		}()
		if want {
			atomic.AddInt64(nacc, 1)
			ctx.AddState(string(s))
			if len(s) <= nEntry {
				for _, t := range []string{string(s), " " + string(s), string(s) + "\n", "\t\r" + string(s) + " ", "\r\n" + string(s) + "\r\n",
					// not JSON whitespace: must be rejected at either end
					string(s) + "\f", "\v" + string(s), string(s) + "\xc2\xa0", "\xc2\x85" + string(s), string(s) + "\xe2\x80\xa8",
					// byte order marks and a zero-width space: not JSON either
					"\xef\xbb\xbf" + string(s), string(s) + "\xef\xbb\xbf", "\xfe\xff" + string(s), "\xff\xfe" + string(s), "\xe2\x80\x8b" + string(s)} {
					m.judgeBytes(t, byteFlags{panics: true, reject: true, accept: true, applyOK: true})
				}
			}
		} else if p.Dead() {
			atomic.AddInt64(nkill, 1)
		}
	}
	// lengths 0 and 1
	m := *m0
	one(&m, []byte{}, rj.NewPDA())
	for _, a := range Gamma33 {
		p := rj.NewPDA()
		p.Step(a)
		one(&m, []byte{a}, p)
	}
	ctx.Parallel(len(units), func(w *core.Worker, i int) {
		m := *m0
		m.w = w
		var rec func(s []byte, p *rj.PDA)
		rec = func(s []byte, p *rj.PDA) {
			atomic.AddInt64(nstr, 1)
			one(&m, s, p)
			if p.Dead() || len(s) >= n {
				return
			}
			for _, a := range Gamma33 {
				q := p.Clone()
				q.Step(a)
				rec(append(append([]byte(nil), s...), a), q)
			}
		}
		rec(units[i].s, units[i].p)
	})
	ctx.Sample(map[string]interface{}{"bytex_a": fmt.Sprintf("every string over the %d byte classes, length <= %d, whose proper prefixes are viable; accepted ones of length <= %d also with leading/trailing whitespace into every entry point", len(Gamma33), n, nEntry), "example": "[-0e+1,\"\\u00e2\"]"}, 12)
}

func bytexReplayCall(ctx *core.Ctx, id string, c MergeCase) {
	m := &mergeRun{id: id, legacy: c.Lib == "v4", ctx: ctx}
	f := byteFlags{panics: true, reject: true, accept: true, applyOK: true, legacy: m.legacy}
	for _, a := range c.Args {
		m.judgeBytes(a, f)
	}
}

// stringShapes: JSON string bodies as run-length patterns over byte classes (ASCII, invalid
// UTF-8 byte, valid 2-byte character, short escape), up to three runs with lengths around the
// buffer-growth boundaries of the decoder (1, 4, 5, 9, 17, 33).
func stringShapes() []string {
	classes := []string{"a", "\xff", "\u00e9", `\n`}
	lens := []int{1, 4, 5, 9, 17, 33}
	seen := map[string]bool{}
	var out []string
	add := func(s string) {
		if !seen[s] {
			seen[s] = true
			out = append(out, s)
		}
	}
	for _, c1 := range classes {
		for _, l1 := range lens {
			add(strings.Repeat(c1, l1))
			for _, c2 := range classes {
				if c2 == c1 {
					continue
				}
				for _, l2 := range lens {
					add(strings.Repeat(c1, l1) + strings.Repeat(c2, l2))
					for _, c3 := range classes {
						if c3 == c2 {
							continue
						}
						for _, l3 := range []int{1, 9, 33} {
							add(strings.Repeat(c1, l1) + strings.Repeat(c2, l2) + strings.Repeat(c3, l3))
						}
					}
				}
			}
		}
	}
	return out
}

// longStringShapes: string bodies of every length 0..130 and around 256, 1024, 4096 (a scanner may skip ahead
// in long literals), plain and with ONE special byte or escape - each of the 32 control bytes, DEL, a quote, a
// backslash escape of every kind, bad UTF-8 - at the start, in the middle and at the end.
func longStringShapes() []string {
	var out []string
	for _, n := range sweepSizes(300, 1024, 4096) {
		out = append(out, plainString(n, 'x'))
	}
	var specials []string
	for c := 0; c < 0x20; c++ {
		specials = append(specials, string([]byte{byte(c)}))
	}
	specials = append(specials, "\x7f", `"`, `\\`, `\"`, `\n`, `\/`, `\u0041`, `\u001f`, `\ud800`, `\ud83d\ude00`, `\x`, `\u12`, `\`, "\xff", "\xc3", "\u00e9", "\xe2\x80\xa8")
	for _, n := range []int{3, 40, 62, 63, 64, 65, 66, 127, 128, 129, 200, 1024, 4096} {
		base := plainString(n, 'x')
		for _, sp := range specials {
			for _, pos := range []int{0, n / 2, n - 1} {
				out = append(out, base[:pos]+sp+base[pos+1:])
			}
		}
	}
	return out
}

// runStringShapes feeds every string shape - as a root string, an array element, a member value and
// a member name - to every []byte parameter.
func runStringShapes(ctx *core.Ctx, id string, f byteFlags) {
	shapes := append(stringShapes(), longStringShapes()...)
	ctx.Count("string_shapes", int64(len(shapes)))
	m0 := &mergeRun{id: id, legacy: f.legacy, ctx: ctx}
	ctx.Parallel(len(shapes), func(w *core.Worker, i int) {
		m := *m0
		m.w = w
		q := `"` + shapes[i] + `"`
		for _, t := range []string{q, "[" + q + "]", `{"k":` + q + `}`, "{" + q + ":1}"} {
			m.judgeBytes(t, f)
			if !f.legacy && f.reject {
				m.judgeCodec([]byte(t))
			}
		}
	})
}

// runBufferReuse: ONE caller-owned buffer per size, handed to an entry point three times - holding a
// well-formed text, then (overwritten in place, same length, same address) an ill-formed one, then the
// well-formed one again. A verdict remembered by buffer identity, length or a prefix shows as an accepted
// ill-formed text or a rejected well-formed one. Sizes 2 .. 70000 bytes, every []byte parameter.
func runBufferReuse(ctx *core.Ctx, id string) {
	type entry struct {
		name string
		call func(buf []byte) (rejected bool, panicked string)
		arr  bool // the parameter wants an array-rooted text (a patch)
	}
	other := []byte(`{"k":1}`)
	okPatch := []byte(`[{"op":"add","path":"/zz","value":1}]`)
	rOf := func(r impl.R) (bool, string) { return r.Err != "", r.Panic }
	entries := []entry{
		{"Apply(doc)", func(b []byte) (bool, string) {
			o := impl.V5Apply(impl.Call{Doc: b, Patch: okPatch, Opt: defaultOpt})
			return o.Err != "" || o.DecodeErr != "", o.Panic
		}, false},
		{"ApplyIndent(doc)", func(b []byte) (bool, string) {
			o := impl.V5Apply(impl.Call{Doc: b, Patch: okPatch, Opt: defaultOpt, Indent: " "})
			return o.Err != "" || o.DecodeErr != "", o.Panic
		}, false},
		{"DecodePatch(patch)", func(b []byte) (bool, string) {
			d := impl.V5Decode(b)
			return d.Err != "", d.Panic
		}, true},
		{"MergePatch(doc,_)", func(b []byte) (bool, string) { return rOf(impl.MergePatch(false, b, other)) }, false},
		{"MergePatch(_,patch)", func(b []byte) (bool, string) { return rOf(impl.MergePatch(false, other, b)) }, false},
		{"MergeMergePatches(p1,_)", func(b []byte) (bool, string) { return rOf(impl.MergeMergePatches(false, b, other)) }, false},
		{"MergeMergePatches(_,p2)", func(b []byte) (bool, string) { return rOf(impl.MergeMergePatches(false, other, b)) }, false},
		{"CreateMergePatch(a,_)", func(b []byte) (bool, string) { return rOf(impl.CreateMergePatch(false, b, other)) }, false},
		{"CreateMergePatch(_,b)", func(b []byte) (bool, string) { return rOf(impl.CreateMergePatch(false, other, b)) }, false},
		{"Equal(a,a)", func(b []byte) (bool, string) {
			r := impl.Equal(false, b, b)
			return !r.Bool, r.Panic
		}, false},
		{"Equal(a,copy)", func(b []byte) (bool, string) {
			r := impl.Equal(false, b, append([]byte(nil), b...))
			return !r.Bool, r.Panic
		}, false},
	}
	sizes := []int{16, 63, 64, 65, 100, 1000, 4000, 4095, 4096, 4097, 5000, 20000, 65536, 70000}
	type unit struct {
		e    int
		size int
		dmg  int
	}
	var units []unit
	for e := range entries {
		for _, s := range sizes {
			for d := 0; d < 4; d++ {
				units = append(units, unit{e, s, d})
			}
		}
	}
	n := ctx.Counter("buffer_reuse_histories")
	ctx.Parallel(len(units), func(w *core.Worker, i int) {
		u := units[i]
		e := entries[u.e]
		var good string
		if e.arr {
			pad := u.size - len(`[{"op":"add","path":"/p","value":""}]`)
			if pad < 0 {
				return
			}
			good = `[{"op":"add","path":"/p","value":"` + strings.Repeat("v", pad) + `"}]`
		} else {
			good = `{"p":"` + strings.Repeat("v", u.size-len(`{"p":""}`)-1) + `"}` + "\n"
		}
		bad := []byte(good)
		switch u.dmg {
		case 0: // the closing bracket / trailing newline becomes a stray bracket
			bad[len(bad)-1] = ']'
			if e.arr {
				bad[len(bad)-1] = '}'
			}
		case 1:
			bad[len(bad)/2] = 0x1f // a raw control character in the long string
		case 2:
			bad[1] = ' ' // the first quote (or the first brace of the operation) disappears
		case 3:
			bad[len(bad)-3] = '\\' // the closing quote is escaped away
		}
		if rj.Valid(bad) {
			panic("harness bug: damaged text is well-formed: " + trunc(string(bad), 80))
		}
		w.Tick(func() string {
			return fmt.Sprintf("buffer reuse: %s, %d bytes, damage %d", e.name, u.size, u.dmg)
		})
		buf := []byte(good)
		report := func(step, what string, p string) {
			key := "buffer-reuse:" + what + ":" + e.name
			if p != "" {
				key = "panic:" + impl.PanicSite(p)
			}
			ctx.Violate(core.Violation{Property: id, Clause: "verdict-depends-on-history", Key: id + ":" + key, Engine: "bytex",
				Detail: fmt.Sprintf("%s with ONE %d-byte buffer: call 1 well-formed text, call 2 the same buffer overwritten in place (damage %d: %q...%q), call 3 the well-formed text again; %s: %s %s", e.name, u.size, u.dmg, trunc(string(bad), 30), string(bad[len(bad)-8:]), step, what, p),
				Case:   core.J(map[string]interface{}{"buffer_reuse": e.name, "size": u.size, "damage": u.dmg})})
		}
		atomic.AddInt64(n, 1)
		atomic.AddInt64(&nExec, 3)
		if rej, p := e.call(buf); rej || p != "" {
			report("call 1", "rejects-well-formed", p)
			return
		}
		copy(buf, bad)
		if rej, p := e.call(buf); !rej || p != "" {
			report("call 2", "accepts-ill-formed", p)
			return
		}
		copy(buf, good)
		if rej, p := e.call(buf); rej || p != "" {
			report("call 3", "rejects-well-formed", p)
		}
	})
}

// runNumberShapes: every number literal of the grammar sign? int frac? exp? over small part menus (integer
// parts 0, 7, 10, 120; fractions .0 .05 .50 .125; exponents with either letter, either sign, and leading
// zeros) as a member value, an array element and at the root, into the codec functions and every entry point.
func runNumberShapes(ctx *core.Ctx, id string, f byteFlags) {
	var lits []string
	for _, sign := range []string{"", "-"} {
		for _, ip := range []string{"0", "7", "10", "120"} {
			for _, fr := range []string{"", ".0", ".05", ".50", ".125"} {
				for _, ex := range []string{"", "e0", "e5", "E5", "e+5", "E+5", "e-5", "E-5", "e05", "E+05", "e-07", "e00", "e007", "E-0", "e+00", "e10", "e308", "e-324", "e400"} {
					lits = append(lits, sign+ip+fr+ex)
				}
			}
		}
	}
	ctx.Count("number_shapes", int64(len(lits)))
	m0 := &mergeRun{id: id, legacy: f.legacy, ctx: ctx}
	ctx.Parallel(len(lits), func(w *core.Worker, i int) {
		m := *m0
		m.w = w
		l := lits[i]
		for _, t := range []string{l, "[" + l + "]", `{"n":` + l + `}`, `{"a":{"n":[` + l + `,1]}}`} {
			m.judgeBytes(t, f)
			if !f.legacy && f.reject {
				m.judgeCodec([]byte(t))
			}
		}
	})
}

// runRunShapes: RUNS of one byte class inside and around tokens - a scanner or copier that hops over several
// bytes at once is only wrong for runs of at least its hop width. (a) a run of N blanks (N = 1, 2, 7, 8, 9,
// 15, 16, 17, 33, 64; space, tab, line feed) inserted at EVERY byte position of a dozen short texts - between
// tokens it is harmless, inside a literal, a number, a string or an escape it changes validity or value;
// (b) runs of N digits (N = 1 .. 20, 31 .. 33) after "-0", "0", "", "1.", "1e", "1e+" and after \u escapes
// inside strings. Codec functions and entry points against the reference.
func runRunShapes(ctx *core.Ctx, id string, f byteFlags) {
	seen := map[string]bool{}
	var texts []string
	add := func(t string) {
		if !seen[t] {
			seen[t] = true
			texts = append(texts, t)
		}
	}
	bases := []string{` 1 2`, ` true`, `{ "a": true }`, `[ -1 , 2.5e3 ]`, ` "a b"`, `[ "Ab" ]`, ` null`, `{ "k" : [ false ] }`, ` -0.5`, `[ 1 ]`, `{"a":1}`, ` "x\n"`}
	for _, b := range bases {
		for pos := 0; pos <= len(b); pos++ {
			for _, n := range []int{1, 2, 7, 8, 9, 15, 16, 17, 33, 64} {
				for _, ch := range []string{" ", "\t", "\n"} {
					add(b[:pos] + strings.Repeat(ch, n) + b[pos:])
				}
			}
		}
	}
	digits := "12345678901234567890123456789012345"
	for _, n := range []int{1, 2, 3, 4, 5, 6, 7, 8, 9, 10, 11, 12, 13, 14, 15, 16, 17, 18, 19, 20, 31, 32, 33} {
		d := digits[:n]
		for _, pre := range []string{"-0", "0", "", "-", "1.", "1e", "1e+", "0.", "-0.", "1E-"} {
			for _, wrap := range [][2]string{{"[", "]"}, {`{"n":`, `}`}, {"", ""}} {
				add(wrap[0] + pre + d + wrap[1])
			}
		}
		for _, esc := range []string{`1`, `ሴ`, `é`, `😀`, `\n`, `\u003`, `\u`} {
			add(`["` + esc + d + `"]`)
			add(`{"k` + esc + d + `":"` + d + esc + `"}`)
		}
	}
	ctx.Count("run_shapes", int64(len(texts)))
	m0 := &mergeRun{id: id, legacy: f.legacy, ctx: ctx}
	ctx.Parallel(len(texts), func(w *core.Worker, i int) {
		m := *m0
		m.w = w
		m.judgeBytes(texts[i], f)
		if !f.legacy && f.reject {
			m.judgeCodec([]byte(texts[i]))
		}
	})
}
