//go:build shim

package main

import (
	"bytes"
	"encoding/json"
	"fmt"
	"os"
	"os/exec"
	"path/filepath"
	"regexp"
	"runtime"
	"sort"
	"strings"
	"sync"
	"time"

	zs "github.com/evanphx/json-patch/v5/zzvsync"

	"verif.local/h/core"
)

// E6 schedx: stateless exploration of every schedule of a small concurrent
// harness up to a preemption bound, on the real code, under a controlled
// scheduler (every Pool/Map/WaitGroup operation and every statement boundary of
// the functions that touch them is a scheduling point; exactly one goroutine
// runs between points). Pool.Get answers share the deviation budget.

type SchedCase struct {
	Scenario   string   `json:"scenario"`
	Calls      []string `json:"goroutine_calls"`
	Warm       bool     `json:"warm_caches"`
	StmtPoints bool     `json:"statement_points"`
	Choices    []int    `json:"choices"`
	Labels     []string `json:"choice_labels,omitempty"`
	Results    []string `json:"results,omitempty"`
	Solo       []string `json:"solo_results,omitempty"`
}

type scenario struct {
	name  string
	calls []int // indices into w.calls, one per goroutine
	warm  bool
}

// bodies the scenarios are built from (names must exist in the menu)
var schedBodies = []string{
	"Ps.Apply(docS)",
	"Ps.ApplyWithOptions(docS, SHARED opts limit=12)",
	"ProotS.ApplyWithOptions(docS, noescape) [root replaced]",
	"Ps.ApplyIndent(docS)",
	"DecodePatch(patchS)+Apply(docS)",
	"MergePatch(docS,mpS)",
	"CreateMergePatch(docS,tgtS)",
	"Equal(eqS1,eqS2)",
	"PtstS.Apply(docS) [failing test]",
	"Ps.Apply(docBad) [malformed]",
	"DecodePatch(patchInv)",
	"Ps.accessors() [Kind, Path, From, ValueInterface of every operation]",
}

func callIndex(w *apiWorld, name string) int {
	for i, c := range w.calls {
		if c.Name == name {
			return i
		}
	}
	panic("no such call in the menu: " + name)
}

func buildScenarios(w *apiWorld, tier string) []scenario {
	var out []scenario
	idx := make([]int, len(schedBodies))
	for i, n := range schedBodies {
		idx[i] = callIndex(w, n)
	}
	for _, warm := range []bool{false, true} {
		tag := "cold"
		if warm {
			tag = "warm"
		}
		for i := range idx {
			for j := i; j < len(idx); j++ {
				out = append(out, scenario{fmt.Sprintf("%s | %s [%s]", schedBodies[i], schedBodies[j], tag), []int{idx[i], idx[j]}, warm})
			}
		}
	}
	// root replacement under different EscapeHTML settings, side by side
	for _, warm := range []bool{false, true} {
		tag := "cold"
		if warm {
			tag = "warm"
		}
		out = append(out, scenario{"ProotS.ApplyWithOptions(noescape) | ProotS.Apply(default) [" + tag + "]",
			[]int{callIndex(w, "ProotS.ApplyWithOptions(docS, noescape) [root replaced]"), callIndex(w, "ProotS.Apply(docS) [root replaced]")}, warm})
	}
	// overlapping calls on ONE patch, ONE document of 78 KB and ONE options value that differ only in the indent
	p64 := []string{"P64.ApplyIndentWithOptions(doc64K, compact, SHARED opts)", "P64.ApplyIndentWithOptions(doc64K, two blanks, SHARED opts)", "P64.ApplyIndentWithOptions(doc64K, tab, SHARED opts)"}
	out = append(out, scenario{p64[0] + " | " + p64[2] + " [cold]", []int{callIndex(w, p64[0]), callIndex(w, p64[2])}, false},
		scenario{p64[1] + " | " + p64[2] + " [warm]", []int{callIndex(w, p64[1]), callIndex(w, p64[2])}, true},
		scenario{"Pesc.Apply(docEsc) | Pesc.Apply(docEsc) [cold]", []int{callIndex(w, "Pesc.Apply(docEsc) [\\u escapes in names, values and pointers]"), callIndex(w, "Pesc.Apply(docEsc) [\\u escapes in names, values and pointers]")}, false})
	three := [][]int{{0, 0, 0}, {0, 3, 4}, {2, 5, 6}}
	for _, t := range three {
		for _, warm := range []bool{false, true} {
			tag := "cold"
			if warm {
				tag = "warm"
			}
			out = append(out, scenario{fmt.Sprintf("%s | %s | %s [%s]", schedBodies[t[0]], schedBodies[t[1]], schedBodies[t[2]], tag), []int{idx[t[0]], idx[t[1]], idx[t[2]]}, warm})
		}
	}
	return out
}

func init() {
	checks["C10"] = &check{Engine: "schedx", Shards: 16,
		Run:    runSchedx,
		Replay: schedReplayCase,
		Budget: map[string]time.Duration{"quick": 110 * time.Second, "thorough": 30 * time.Minute}}
}

// schedExec runs one execution of sc with the given choice prefix.
func schedExec(w *apiWorld, s *sched, sc scenario, prefix []int) (*chooser, []string) {
	coldReset()
	if sc.warm {
		for _, ci := range sc.calls {
			w.outcome(ci)
		}
	}
	res := make([]string, len(sc.calls))
	bodies := make([]func(), len(sc.calls))
	for i, ci := range sc.calls {
		i, ci := i, ci
		bodies[i] = func() { res[i] = w.outcome(ci) }
	}
	c := &chooser{prefix: prefix}
	s.runThreads(c, bodies)
	for i, t := range s.threads {
		if t.panicV != "" {
			res[i] = "PANIC(thread): " + t.panicV
		}
	}
	return c, res
}

type schedJob struct {
	sc    scenario
	stmt  bool // configuration B: statement-boundary points too
	bound int
	pts   int     // scheduling points of the default schedule
	cost  float64 // estimated executions x points
}

func (j schedJob) name() string {
	cfg := "sync-points"
	if j.stmt {
		cfg = "sync+statement-points"
	}
	return fmt.Sprintf("%s {%s, <=%d preemptions}", j.sc.name, cfg, j.bound)
}

// planJobs: which (scenario, configuration, bound) triples a tier explores.
func planJobs(w *apiWorld, s *sched, tier string) []schedJob {
	var jobs []schedJob
	for _, sc := range buildScenarios(w, tier) {
		three := len(sc.calls) >= 3
		add := func(stmt bool, bound int) { jobs = append(jobs, schedJob{sc: sc, stmt: stmt, bound: bound}) }
		if strings.HasPrefix(sc.name, "P64.") {
			add(false, 1) // 78 KB documents: an execution costs milliseconds; one preemption at the synchronisation points
			continue
		}
		if tier == "quick" {
			switch {
			case three:
				add(false, 1)
			case !sc.warm:
				add(false, 2)
				add(true, 1)
			default:
				add(false, 1)
				add(true, 1)
			}
		} else {
			switch {
			case three:
				add(false, 2)
			default:
				add(false, 2)
				add(true, 1)
			}
		}
	}
	// measure the default schedule of each job (cheap, deterministic, same in every worker)
	for i := range jobs {
		zs.StmtPoints = jobs[i].stmt
		schedExec(w, s, jobs[i].sc, nil)
		jobs[i].pts = s.points
		if tier == "quick" && !jobs[i].stmt && jobs[i].bound == 2 && s.points > 200 {
			jobs[i].bound = 1 // the largest pairs get their second preemption in the thorough tier
		}
		n := float64(s.points)
		k := float64(len(jobs[i].sc.calls) - 1)
		execs := 1.0
		for b := 1; b <= jobs[i].bound; b++ {
			execs *= n * k / float64(b)
		}
		jobs[i].cost = execs * n
	}
	if tier == "thorough" {
		// a third preemption where the scenario is small enough, a second one with statement points likewise
		var extra []schedJob
		for _, j := range jobs {
			if !j.stmt && len(j.sc.calls) == 2 && j.pts <= 50 {
				e := j
				e.bound = 3
				e.cost = j.cost * float64(j.pts) / 3
				extra = append(extra, e)
			}
			if j.stmt && j.pts <= 150 {
				e := j
				e.bound = 2
				e.cost = j.cost * float64(j.pts) / 2
				extra = append(extra, e)
			}
		}
		jobs = append(jobs, extra...)
	}
	return jobs
}

// assignJobs: longest-processing-time-first onto the least loaded worker (deterministic).
func assignJobs(jobs []schedJob, nshards int) [][]int {
	idx := make([]int, len(jobs))
	for i := range idx {
		idx[i] = i
	}
	sort.SliceStable(idx, func(a, b int) bool { return jobs[idx[a]].cost > jobs[idx[b]].cost })
	load := make([]float64, nshards)
	out := make([][]int, nshards)
	for _, i := range idx {
		m := 0
		for k := range load {
			if load[k] < load[m] {
				m = k
			}
		}
		load[m] += jobs[i].cost
		out[m] = append(out[m], i)
	}
	return out
}

func runSchedx(ctx *core.Ctx, tier string) {
	w := newAPIWorld()
	s := installSched()
	zs.OwnMapOrder = false
	w.solo = w.soloOutcomes()
	shard, nshards := shardInfo()
	jobs := planJobs(w, s, tier)
	mine := assignJobs(jobs, nshards)[shard]
	ctx.Rep.Rule = fmt.Sprintf("stateless DFS over ALL schedules of each scenario within a preemption bound (iterative context bounding; Pool.Get answers share the deviation budget), on the real code under a controlled scheduler. Scenarios: every unordered pair (incl. the same call twice) of %d calls on ONE shared Patch and shared input slices, with cold and with warm type caches, plus 3-goroutine scenarios. "+
		"Two configurations: (A) a scheduling point before every sync.Pool/Map/WaitGroup operation of the codec and at call start/end; (B) additionally before every statement of every function that touches a pool or cache (injected at build time), which is what exposes an object being used after it was returned to a pool. "+
		"Tier plan: quick = A with <=2 preemptions on cold pairs whose default schedule has <=200 points, <=1 on the larger ones, on warm pairs and on 3-goroutine scenarios, B with <=1; thorough = A with <=2 everywhere (3 where the default schedule has <=50 points), B with <=1 (2 where <=150 points). "+
		"Oracle per complete schedule: every goroutine's call returns its solo outcome, shared buffers and Patch unchanged, no panic, no deadlock. states = distinct library states (dump of all package-level variables) at the end of the schedules with <=1 deviation; transitions = scheduling points executed; non-trivial = schedules with >=1 preemption. "+
		"Second half (mandatory for the 'no data race' clause): the same bodies free-running under the Go race detector, see coverage.race_pass", len(schedBodies))
	ctx.Rep.Assume = append(ctx.Rep.Assume,
		"a cooperative scheduler only interleaves at its scheduling points; unsynchronised accesses between points are the race pass's job (detection on executed accesses, not enumeration)",
		"standard-library internals (reflect, strconv, strings.Replacer's sync.Once) are trusted to be thread-safe; the legacy package uses the standard encoding/json and is covered by the race pass only",
		"map iteration inside the library is fixed to sorted order in this build (rewritten at build time), so that a recorded schedule replays identically")
	points := ctx.Counter("scheduling_points")
	scheds := ctx.Counter("schedules")
	var nontrivial int64
	perScenario := map[string]map[string]int64{}
	for _, ji := range mine {
		job := jobs[ji]
		sc, bound, scName := job.sc, job.bound, job.name()
		zs.StmtPoints = job.stmt
		if ctx.Expired() {
			ctx.Cap("internal deadline reached: " + scName + " not started")
			ctx.Count("jobs_not_started", 1)
			continue
		}
		names := make([]string, len(sc.calls))
		solo := make([]string, len(sc.calls))
		for i, ci := range sc.calls {
			names[i], solo[i] = w.calls[ci].Name, w.solo[ci]
		}
		// determinism: the default schedule twice must give the same trace and results
		c1, r1 := schedExec(w, s, sc, nil)
		c2, r2 := schedExec(w, s, sc, nil)
		if len(c1.trace) != len(c2.trace) || fmt.Sprint(r1) != fmt.Sprint(r2) {
			ctx.Cap("scenario " + scName + ": the default schedule is not reproducible (harness nondeterminism); skipped")
			ctx.Count("jobs_skipped_nondeterministic", 1)
			continue
		}
		outcomes := map[string]bool{}
		var nexec, maxPoints int64
		run := func(prefix []int) *chooser {
			c, res := schedExec(w, s, sc, prefix)
			*points += int64(s.points)
			if int64(s.points) > maxPoints {
				maxPoints = int64(s.points)
			}
			*scheds++
			nexec++
			ndev := deviations(c.trace, len(c.trace))
			if ndev > 0 {
				nontrivial++
			}
			mk := func() SchedCase {
				labels := []string{}
				for i, p := range c.trace {
					if p.taken != 0 {
						labels = append(labels, fmt.Sprintf("@%d %s:%d/%d %s", i, p.kind, p.taken, p.n, p.label))
					}
				}
				return SchedCase{Scenario: scName, StmtPoints: job.stmt, Calls: names, Warm: sc.warm, Choices: c.choices(), Labels: labels, Results: res, Solo: solo}
			}
			if c.err != "" {
				ctx.Cap("replay divergence in " + scName + ": " + c.err)
				ctx.Count("replay_divergences", 1)
				return c
			}
			if s.deadlock != "" {
				ctx.Violate(core.Violation{Property: "C10", Clause: "deadlock", Key: "C10:deadlock:" + strings.Join(names, "|"), Engine: "schedx",
					Detail: s.deadlock + " in scenario " + scName + ", schedule " + compactChoices(c), Case: core.J(mk())})
			}
			for i := range res {
				if res[i] != solo[i] && s.deadlock == "" {
					cl := "concurrent-result-differs"
					if strings.HasPrefix(res[i], "PANIC") {
						cl = "panic-under-schedule"
					}
					ctx.Violate(core.Violation{Property: "C10", Clause: cl, Key: "C10:" + cl + ":" + names[i], Engine: "schedx",
						Detail: fmt.Sprintf("scenario %s, schedule %v: goroutine %d (%s) returned %q; alone it returns %q", scName, compactChoices(c), i, names[i], clip(res[i], 300), clip(solo[i], 300)),
						Case:   core.J(mk())})
				}
			}
			for _, b := range w.inputsIntact() {
				ctx.Violate(core.Violation{Property: "C10", Clause: "input-modified", Key: "C10:input-modified", Engine: "schedx", Detail: b + " in scenario " + scName, Case: core.J(mk())})
			}
			outcomes[fmt.Sprint(res)] = true
			if ndev <= 1 {
				ctx.AddState(globalsDump())
			}
			if nexec == 2 {
				ctx.Sample(map[string]interface{}{"scenario": scName, "schedule": compactChoices(c), "scheduling_points": s.points, "results_equal_solo": fmt.Sprint(res) == fmt.Sprint(solo)}, 6)
			}
			return c
		}
		_, complete := exploreDFS(bound, run, func(*chooser) {}, ctx.Expired)
		if !complete {
			ctx.Cap(fmt.Sprintf("internal deadline reached in %q after %d schedules (bound not completed for it)", scName, nexec))
			ctx.Count("jobs_cut_by_deadline", 1)
		} else {
			ctx.Count("jobs_completed", 1)
		}
		perScenario[scName] = map[string]int64{"schedules": nexec, "max_points": maxPoints, "distinct_outcomes": int64(len(outcomes)), "bound": int64(bound)}
	}
	ctx.Rep.Trans = *points
	ctx.Rep.Validated = *scheds
	ctx.Rep.Evals = *scheds
	ctx.Rep.Nontrivial = nontrivial
	ctx.Rep.Extra["per_scenario"] = perScenario
	ctx.Rep.Extra["jobs_planned"] = len(jobs)
	if nshards <= 1 || shard == 0 {
		racePass(ctx, tier)
	}
}

func compactChoices(c *chooser) string {
	var parts []string
	for i, p := range c.trace {
		if p.taken != 0 {
			parts = append(parts, fmt.Sprintf("@%d:%s->%d(%s)", i, p.kind, p.taken, p.label))
		}
	}
	if len(parts) == 0 {
		return "default (no preemption)"
	}
	return strings.Join(parts, " ")
}

func schedReplayCase(ctx *core.Ctx, raw json.RawMessage) {
	var k SchedCase
	if err := json.Unmarshal(raw, &k); err != nil {
		panic(err)
	}
	if strings.HasPrefix(k.Scenario, "race:") {
		ctx.Rep.Extra["note"] = "race reports are re-checked by re-running the race pass (bin/vcheck C10)"
		racePass(ctx, "quick")
		return
	}
	w := newAPIWorld()
	s := installSched()
	w.solo = w.soloOutcomes()
	sc := scenario{name: k.Scenario, warm: k.Warm}
	zs.StmtPoints = k.StmtPoints
	for _, n := range k.Calls {
		sc.calls = append(sc.calls, callIndex(w, n))
	}
	for rep := 0; rep < 2; rep++ { // the same schedule must fail every time
		c, res := schedExec(w, s, sc, k.Choices)
		if c.err != "" {
			fmt.Fprintln(os.Stderr, "replay:", c.err)
		}
		if s.deadlock != "" {
			ctx.Violate(core.Violation{Property: "C10", Clause: "deadlock", Key: "C10:deadlock:" + strings.Join(k.Calls, "|"), Engine: "schedx", Detail: s.deadlock, Case: raw})
		}
		for i := range res {
			if res[i] != w.solo[sc.calls[i]] {
				ctx.Violate(core.Violation{Property: "C10", Clause: "concurrent-result-differs", Key: "C10:concurrent-result-differs:" + k.Calls[i], Engine: "schedx",
					Detail: fmt.Sprintf("goroutine %d returned %q; alone %q", i, clip(res[i], 300), clip(w.solo[sc.calls[i]], 300)), Case: raw})
			}
		}
		for _, b := range w.inputsIntact() {
			ctx.Violate(core.Violation{Property: "C10", Clause: "input-modified", Key: "C10:input-modified", Engine: "schedx", Detail: b, Case: raw})
		}
	}
}

// ---- race pass: the same bodies, free-running, under the race detector ----

var raceBlock = regexp.MustCompile(`(?s)WARNING: DATA RACE.*?==================`)
var raceFrame = regexp.MustCompile(`(?m)^  (\S+)\(.*\n\s+(\S+):(\d+)`)

// racePass spawns the -race build of this harness (VERIF_RACEBIN) and turns its
// race reports into violations.
func racePass(ctx *core.Ctx, tier string) {
	bin := os.Getenv("VERIF_RACEBIN")
	info := map[string]interface{}{}
	ctx.Rep.Extra["race_pass"] = info
	if bin == "" {
		info["ran"] = false
		info["why"] = "no race-detector build available (VERIF_RACEBIN unset)"
		ctx.Cap("race pass not run: no -race build")
		return
	}
	scratch := os.Getenv("VERIF_SCRATCH")
	logp := scratch + "/race.log"
	reps := "40"
	if tier == "thorough" {
		reps = "400"
	}
	t0 := time.Now()
	cmd := exec.Command(bin, "racebodies", reps)
	cmd.Env = append(os.Environ(), "GORACE=log_path="+logp+" halt_on_error=0 history_size=3", "GOMAXPROCS=16")
	var outb strings.Builder
	cmd.Stdout, cmd.Stderr = &outb, &outb
	err := cmd.Start()
	if err == nil {
		done := make(chan error, 1)
		go func() { done <- cmd.Wait() }()
		limit := 5 * time.Minute
		if tier == "thorough" {
			limit = 20 * time.Minute
		}
		select {
		case err = <-done:
		case <-time.After(limit):
			cmd.Process.Kill()
			<-done
			info["ran"] = true
			info["timed_out_after_s"] = limit.Seconds()
			ctx.Cap(fmt.Sprintf("race pass did not finish within %v (killed): a free-running deadlock or a very slow machine; the schedule half reports deadlocks deterministically", limit))
			return
		}
	}
	out := []byte(outb.String())
	info["ran"] = true
	info["wall_s"] = time.Since(t0).Seconds()
	info["summary"] = strings.TrimSpace(lastLines(string(out), 3))
	coldReps := 3
	if tier == "thorough" {
		coldReps = 25
	}
	raceColdPass(ctx, bin, scratch, coldReps, info)
	var logs []byte
	if ms, _ := filepathGlob(logp + "*"); len(ms) > 0 {
		for _, m := range ms {
			b, _ := os.ReadFile(m)
			logs = append(logs, b...)
		}
	}
	blocks := raceBlock.FindAllString(string(logs), -1)
	info["race_reports"] = len(blocks)
	seen := map[string]bool{}
	for _, b := range blocks {
		key := "unknown"
		var frames []string
		for _, m := range raceFrame.FindAllStringSubmatch(b, -1) {
			if strings.Contains(m[1], "json-patch") && !strings.Contains(m[1], "zzvsync") {
				frames = append(frames, m[1])
			}
		}
		if len(frames) > 0 {
			key = frames[0]
		}
		if seen[key] {
			continue
		}
		seen[key] = true
		ctx.Violate(core.Violation{Property: "C10", Clause: "data-race", Key: "C10:data-race:" + key, Engine: "schedx/race",
			Detail: clip(b, 1500), Case: core.J(SchedCase{Scenario: "race:" + key})})
	}
	if err != nil && len(blocks) == 0 {
		// the race build failed for another reason (e.g. wrong results): its stdout says which
		for _, l := range strings.Split(string(out), "\n") {
			if strings.HasPrefix(l, "RACEBODY-MISMATCH ") {
				ctx.Violate(core.Violation{Property: "C10", Clause: "concurrent-result-differs", Key: "C10:free-running-result-differs", Engine: "schedx/race",
					Detail: l, Case: core.J(SchedCase{Scenario: "race:result"})})
			}
			if strings.Contains(l, "fatal error: concurrent map") {
				ctx.Violate(core.Violation{Property: "C10", Clause: "data-race", Key: "C10:data-race:concurrent-map-access", Engine: "schedx/race",
					Detail: clip(string(out), 1500), Case: core.J(SchedCase{Scenario: "race:fatal"})})
				break
			}
		}
		info["exit_error"] = err.Error()
	}
}

// coldScenarios: what the goroutines of one BRAND-NEW process do first, all released together - lazily
// initialised package-level state (a table filled on first use, a once-guarded cache) is only ever built
// once per process, so its window exists only here and every later execution of the same process sees it built.
var coldScenarios = [][]string{
	{"Pesc.Apply(docEsc) [\\u escapes in names, values and pointers]"},
	{"P.Apply(docObj)"},
	{"P.ApplyIndent(docObj)", "MergePatch(docObj,mp1)"},
	{"CreateMergePatch(docObj,tgtObj)", "Equal(eqA,eqB)"},
	{"Pesc.Apply(docEsc) [\\u escapes in names, values and pointers]", "DecodePatch(patchOK)+Apply(docObj)", "MergeMergePatches(mp1,mp2)"},
	{"legacy Lp.Apply(docObj)", "legacy MergePatch(docObj,mp1)"},
}

// raceColdPass runs every cold scenario in fresh processes of the -race build (8 goroutines each) and
// reports race-detector output and outcomes that differ from the solo outcomes.
func raceColdPass(ctx *core.Ctx, bin, scratch string, reps int, info map[string]interface{}) {
	w := newAPIWorld()
	solo := w.soloOutcomes()
	runs, mism := 0, 0
	var logs []byte
	for si, sc := range coldScenarios {
		for _, n := range sc {
			callIndex(w, n) // panics on a stale name
		}
		for r := 0; r < reps; r++ {
			logp := fmt.Sprintf("%s/racecold-%d-%d.log", scratch, si, r)
			cmd := exec.Command(bin, "racecold", fmt.Sprint(si))
			cmd.Env = append(os.Environ(), "GORACE=log_path="+logp+" halt_on_error=0 history_size=3", "GOMAXPROCS=16", "VERIF_SHARD=solo")
			var outb bytes.Buffer
			cmd.Stdout = &outb
			done := make(chan error, 1)
			if err := cmd.Start(); err != nil {
				continue
			}
			go func() { done <- cmd.Wait() }()
			select {
			case <-done:
			case <-time.After(60 * time.Second):
				cmd.Process.Kill()
				<-done
				ctx.Cap("a cold-start race process did not finish within 60 s (killed)")
				continue
			}
			runs++
			var res []struct {
				Call int
				Out  string
			}
			if json.Unmarshal(outb.Bytes(), &res) == nil {
				for _, x := range res {
					if x.Out != solo[x.Call] && mism < 10 {
						mism++
						ctx.Violate(core.Violation{Property: "C10", Clause: "concurrent-result-differs", Key: "C10:cold-start-result-differs:" + w.calls[x.Call].Name, Engine: "schedx/race",
							Detail: fmt.Sprintf("first calls of a brand-new process, 8 goroutines released together (scenario %v): %s returns %q, alone %q", sc, w.calls[x.Call].Name, clip(x.Out, 200), clip(solo[x.Call], 200)),
							Case:   core.J(SchedCase{Scenario: "race:cold"})})
					}
				}
			}
			if ms, _ := filepathGlob(logp + "*"); len(ms) > 0 {
				for _, m := range ms {
					b, _ := os.ReadFile(m)
					logs = append(logs, b...)
				}
			}
		}
	}
	info["cold_start_processes"] = runs
	info["cold_start_result_mismatches"] = mism
	blocks := raceBlock.FindAllString(string(logs), -1)
	info["cold_start_race_reports"] = len(blocks)
	seen := map[string]bool{}
	for _, b := range blocks {
		key := "unknown"
		for _, m := range raceFrame.FindAllStringSubmatch(b, -1) {
			if strings.Contains(m[1], "json-patch") && !strings.Contains(m[1], "zzvsync") {
				key = m[1]
				break
			}
		}
		if seen[key] {
			continue
		}
		seen[key] = true
		ctx.Violate(core.Violation{Property: "C10", Clause: "data-race", Key: "C10:data-race:" + key, Engine: "schedx/race",
			Detail: "in the first calls of a brand-new process: " + clip(b, 1500), Case: core.J(SchedCase{Scenario: "race:cold:" + key})})
	}
}

func raceCold(si int) {
	zs.SetController(nil)
	zs.FreeYield = true
	w := newAPIWorld()
	sc := coldScenarios[si]
	type res struct {
		Call int
		Out  string
	}
	out := make([]res, 8)
	var wg sync.WaitGroup
	start := make(chan struct{})
	for g := 0; g < 8; g++ {
		ci := callIndex(w, sc[g%len(sc)])
		out[g].Call = ci
		wg.Add(1)
		go func(g, ci int) {
			defer wg.Done()
			<-start
			out[g].Out = w.outcome(ci)
		}(g, ci)
	}
	close(start)
	wg.Wait()
	b, _ := json.Marshal(out)
	os.Stdout.Write(b)
}

func lastLines(s string, n int) string {
	l := strings.Split(strings.TrimRight(s, "\n"), "\n")
	if len(l) > n {
		l = l[len(l)-n:]
	}
	return strings.Join(l, "\n")
}

// raceBodies is the entry point of the -race build: free mode (no controller),
// real goroutines, every scenario repeated reps times.
func raceBodies(reps int) {
	zs.SetController(nil)
	zs.FreeYield = true
	w := newAPIWorld()
	w.solo = w.soloOutcomes()
	scs := buildScenarios(w, "quick")
	// extra free-running scenarios: 8 goroutines on the shared Patch; legacy calls
	all := []int{}
	for _, n := range schedBodies {
		all = append(all, callIndex(w, n))
	}
	scs = append(scs, scenario{"8 x P.Apply(docObj) [cold]", []int{all[0], all[0], all[0], all[0], all[0], all[0], all[0], all[0]}, false},
		scenario{"all bodies at once [cold]", all, false},
		scenario{"ProotS noescape | ProotS default | ProotS noescape", []int{callIndex(w, "ProotS.ApplyWithOptions(docS, noescape) [root replaced]"), callIndex(w, "ProotS.Apply(docS) [root replaced]"), callIndex(w, "ProotS.ApplyWithOptions(docS, noescape) [root replaced]")}, false},
		scenario{"ApplyIndent with > 1 KiB results x 3 | small ApplyIndent x 2", []int{callIndex(w, "PbigS.ApplyIndent(wideDoc) [result > 1 KiB]"), callIndex(w, "Ps.ApplyIndent(docS)"),
			callIndex(w, "PbigS.ApplyIndentWithOptions(wideDoc, tab) [result > 1 KiB]"), callIndex(w, "Ps.ApplyIndent(docS)"), callIndex(w, "PbigS.ApplyIndent(wideDoc) [result > 1 KiB]")}, false},
		scenario{"CreateMergePatch big ok | big malformed | big ok", []int{callIndex(w, "CreateMergePatch(bigA,bigB) [5 KB documents]"), callIndex(w, "CreateMergePatch(bigBad,bigB) [5 KB, first malformed]"), callIndex(w, "CreateMergePatch(bigA,bigB) [5 KB documents]")}, false},
		scenario{"three indents of one 78 KB document, one patch, one options value", []int{callIndex(w, "P64.ApplyIndentWithOptions(doc64K, compact, SHARED opts)"), callIndex(w, "P64.ApplyIndentWithOptions(doc64K, two blanks, SHARED opts)"), callIndex(w, "P64.ApplyIndentWithOptions(doc64K, tab, SHARED opts)")}, false},
		scenario{"6 x Equal on a 3000-deep document (limits are per call, not per process)", func() []int {
			i := callIndex(w, "Equal(deep3k,deep3k) [nesting 3000: several at once exceed any process-wide depth budget]")
			return []int{i, i, i, i, i, i}
		}(), false},
		scenario{"CreateMergePatch on arrays with several non-object elements x 2", []int{callIndex(w, "CreateMergePatch(arrBad,arrBad) [three elements that are not objects]"), callIndex(w, "CreateMergePatch(arrBad,arrBad) [three elements that are not objects]")}, false},
		scenario{"legacy Apply | legacy Apply | legacy MergePatch", []int{callIndex(w, "legacy Lp.Apply(docObj)"), callIndex(w, "legacy Lp.Apply(docObj)"), callIndex(w, "legacy MergePatch(docObj,mp1)")}, false})
	mism := 0
	runs := 0
	for r := 0; r < reps; r++ {
		for _, sc := range scs {
			if strings.HasPrefix(sc.name, "6 x Equal on a 3000-deep") && r%20 != 0 {
				continue // milliseconds per call, far more under the race detector: twice per pass
			}
			if r%4 == 0 || !sc.warm {
				coldReset()
			}
			if sc.warm {
				for _, ci := range sc.calls {
					w.outcome(ci)
				}
			}
			res := make([]string, len(sc.calls))
			var wg sync.WaitGroup
			start := make(chan struct{})
			for i, ci := range sc.calls {
				wg.Add(1)
				go func(i, ci int) {
					defer wg.Done()
					<-start
					res[i] = w.outcome(ci)
				}(i, ci)
			}
			close(start)
			wg.Wait()
			runs++
			for i, ci := range sc.calls {
				if res[i] != w.solo[ci] && mism < 20 {
					mism++
					fmt.Printf("RACEBODY-MISMATCH scenario %q goroutine %d (%s): got %q, alone %q\n", sc.name, i, w.calls[ci].Name, clip(res[i], 200), clip(w.solo[ci], 200))
				}
			}
			for _, b := range w.inputsIntact() {
				if mism < 20 {
					mism++
					fmt.Printf("RACEBODY-MISMATCH scenario %q: %s\n", sc.name, clip(b, 300))
				}
			}
		}
	}
	fmt.Printf("race pass: %d scenarios x %d repetitions = %d concurrent runs on %d procs, %d result mismatches\n", len(scs), reps, runs, runtime.GOMAXPROCS(0), mism)
	if mism > 0 {
		os.Exit(1)
	}
}

func filepathGlob(p string) ([]string, error) {
	ms, err := filepath.Glob(p)
	sort.Strings(ms)
	return ms, err
}

func init() {
	extraCommands["racecold"] = func(args []string) {
		si := 0
		if len(args) > 0 {
			fmt.Sscanf(args[0], "%d", &si)
		}
		raceCold(si)
	}
	extraCommands["racebodies"] = func(args []string) {
		reps := 40
		if len(args) > 0 {
			fmt.Sscanf(args[0], "%d", &reps)
		}
		raceBodies(reps)
	}
}
