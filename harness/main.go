package main

import (
	"encoding/json"
	"flag"
	"fmt"
	"os"
	"runtime/debug"
	"sort"
	"syscall"
	"time"

	"verif.local/h/core"
)

// A check is one property's exploration at a tier.
type check struct {
	Engine string
	Run    func(ctx *core.Ctx, tier string)
	// Replay re-judges one recorded case; returns the violations it (still) shows.
	Replay func(ctx *core.Ctx, c json.RawMessage)
	Budget map[string]time.Duration
	// Shards > 0: the engine owns process-wide state (one controller per process),
	// so the work is split over that many worker processes (VERIF_SHARD=i/n) and merged
	Shards int
}

var checks = map[string]*check{}

// extraCommands: sub-commands registered by build-flavour-specific files
var extraCommands = map[string]func(args []string){}

func main() {
	// the sandbox has no memory limit: cap the address space so that a runaway
	// allocation in the code under test ends this process, not the machine
	lim := syscall.Rlimit{Cur: 48 << 30, Max: 48 << 30}
	syscall.Setrlimit(syscall.RLIMIT_AS, &lim)
	// a runaway recursion in the code under test should die quickly (default limit: 1 GB of stack)
	debug.SetMaxStack(256 << 20)
	if len(os.Args) < 2 {
		fmt.Fprintln(os.Stderr, "usage: harness run|replay|list ...")
		os.Exit(2)
	}
	switch os.Args[1] {
	case "list":
		ids := []string{}
		for id := range checks {
			ids = append(ids, id)
		}
		sort.Strings(ids)
		for _, id := range ids {
			fmt.Println(id, checks[id].Engine)
		}
	case "run":
		fs := flag.NewFlagSet("run", flag.ExitOnError)
		prop := fs.String("prop", "", "property id")
		tier := fs.String("tier", "quick", "quick|thorough")
		out := fs.String("out", "report.json", "report path")
		budget := fs.Duration("budget", 0, "internal deadline (0 = tier default)")
		fs.Parse(os.Args[2:])
		ck := checks[*prop]
		if ck == nil {
			fmt.Fprintln(os.Stderr, "unknown property", *prop)
			os.Exit(2)
		}
		b := *budget
		if b == 0 {
			b = ck.Budget[*tier]
		}
		if b == 0 {
			b = 10 * time.Minute
		}
		if ck.Shards > 0 && os.Getenv("VERIF_SHARD") == "" {
			runSharded(*prop, ck, *tier, *out, b)
			return
		}
		ctx := core.NewCtx(*prop, ck.Engine, *tier, b)
		core.Watchdog(90*time.Second, *out+".hang")
		ck.Run(ctx, *tier)
		if os.Getenv("VERIF_SHARD") != "" {
			ctx.ExportStates(*out + ".states")
		}
		ctx.Finish(*out)
	case "replay":
		fs := flag.NewFlagSet("replay", flag.ExitOnError)
		prop := fs.String("prop", "", "property id")
		file := fs.String("file", "", "replay file")
		out := fs.String("out", "", "report path")
		fs.Parse(os.Args[2:])
		ck := checks[*prop]
		if ck == nil || ck.Replay == nil {
			fmt.Fprintln(os.Stderr, "no replay for", *prop)
			os.Exit(2)
		}
		b, err := os.ReadFile(*file)
		if err != nil {
			fmt.Fprintln(os.Stderr, err)
			os.Exit(2)
		}
		var v core.Violation
		if err := json.Unmarshal(b, &v); err != nil {
			fmt.Fprintln(os.Stderr, "bad replay file:", err)
			os.Exit(2)
		}
		ctx := core.NewCtx(*prop, ck.Engine, "replay", time.Minute)
		core.Watchdog(90*time.Second, *file+".hang")
		ck.Replay(ctx, v.Case)
		if *out != "" {
			ctx.Finish(*out)
		}
		for _, x := range ctx.Rep.Violations {
			fmt.Printf("REPLAY-VIOLATION property=%s key=%s\n  %s\n", x.Property, x.Key, x.Detail)
		}
		if len(ctx.Rep.Violations) > 0 {
			os.Exit(1)
		}
		fmt.Println("REPLAY-OK: the recorded case no longer violates", *prop)
	default:
		if f := extraCommands[os.Args[1]]; f != nil {
			f(os.Args[2:])
			return
		}
		fmt.Fprintln(os.Stderr, "unknown command", os.Args[1])
		os.Exit(2)
	}
}
