//go:build shim

package main

import (
	"encoding/json"
	"errors"
	"fmt"
	"os"
	"os/exec"
	"reflect"
	"strings"
	"sync"
	"sync/atomic"
	"unsafe"

	zs "github.com/evanphx/json-patch/v5/zzvsync"

	v4 "github.com/evanphx/json-patch"
	v5 "github.com/evanphx/json-patch/v5"

	rj "verif.local/h/refjson"
)

// The shared-object world that the history engine (C09) and the schedule engine
// (C10) drive: ONE decoded Patch per shape and ONE set of input buffers, used by
// every call of every history / schedule, so that whatever one call leaves behind
// (in the Patch, in the buffers, in the pooled codec state, in package-level
// variables) is there for the next.

type keptResult struct {
	call string
	raw  []byte
	snap string
	err  error  // an error VALUE a caller may hold on to: its text must not change under later calls
	etxt string // err.Error() when it was returned
}

type apiCall struct {
	Name  string
	Exact bool // outcome compared byte for byte (Apply, ApplyIndent, CreateMergePatch, Equal); else by JSON value
	run   func(w *apiWorld) ([]byte, error)
}

type apiWorld struct {
	bufs       map[string][]byte
	snaps      map[string]string
	patches    map[string]v5.Patch
	psnaps     map[string]string
	lpatch     v4.Patch
	lpsnap     string
	pshape     map[string]*patchShape
	lpshape    *patchShape
	lpatch2    v4.Patch // a legacy patch with a null entry in front of an operation (the legacy DecodePatch does not validate)
	lpsnap2    string
	lpshape2   *patchShape
	sharedOptS *v5.ApplyOptions // the same for the schedule engine's small inputs (limit 12: one application copies 9 bytes)
	sharedOpt  *v5.ApplyOptions // ONE options value reused by several calls (a call must not leave anything in it)
	optSnap    v5.ApplyOptions
	scribble   bool          // the "caller" overwrites every returned byte slice after reading it
	keep       *[]keptResult // when set: every returned byte slice is remembered, to see whether a LATER call writes into it
	calls      []apiCall
	menu       []int // indices of the calls the history engine uses (the small-input calls are for the schedule engine)
	solo       []string
}

var apiTexts = map[string]string{
	"docObj":        `{"a":{"b":[1,{"c":"<x>"}],"n":null},"k":1.0,"z":"s","<t&>":{"\u2028":1}}`,
	"docArr":        ` [ {"a": 1}, [2, 3], "t" ] `,
	"docBad":        `{"a":[1,}`,
	"docNum":        `17`,
	"patchOK":       `[{"op":"add","path":"/nul","value":null},{"op":"add","path":"/a/b/-","value":{"v":[null,"<"]}},{"op":"add","path":"/a/b/2/v/-","value":7},{"op":"copy","from":"/a/b/1","path":"/cp"},{"op":"test","path":"/cp","value":{ "c" : "<x>" }},{"op":"move","from":"/z","path":"/a/n"},{"op":"remove","path":"/k"},{"op":"replace","path":"/a/b/0","value":2}]`,
	"patchArr":      `[{"op":"add","path":"/1/-","value":{"q":1}},{"op":"copy","from":"/0","path":"/-"},{"op":"test","path":"/2","value":"t"}]`,
	"patchTst":      `[{"op":"add","path":"/w","value":1},{"op":"test","path":"/a/n","value":"no"}]`,
	"patchNeg":      `[{"op":"add","path":"/1/-1","value":9},{"op":"remove","path":"/-1"}]`,
	"patchWide":     `[{"op":"replace","path":"/k00","value":{"r":[1,2]}},{"op":"remove","path":"/k39"}]`,
	"patchDeep":     `[{"op":"add","path":"/0/d/0/d/0/d/0/d/0/d/0/d/leaf/-","value":{"deeper":[{"x":[1]}]}}]`,
	"patchBig":      `[{"op":"add","path":"/n","value":{"big":12345678901234567890123,"e":1e400,"f":1.0}},{"op":"move","from":"/n","path":"/m"},{"op":"test","path":"/m/f","value":1.0}]`,
	"patchCopyFail": `[{"op":"copy","from":"/a/b","path":"/c1"},{"op":"test","path":"/k","value":"no"}]`,
	"patchCopyBig":  `[{"op":"copy","from":"/a","path":"/c1"},{"op":"copy","from":"/a","path":"/c2"},{"op":"copy","from":"/a","path":"/c3"}]`,
	"patchMoveFail": `[{"op":"remove","path":"/nope"},{"op":"move","from":"/a/b","path":"/missing/b"}]`,
	"patchRmAbsent": `[{"op":"remove","path":"/nope"},{"op":"remove","path":"/a/nope/x"},{"op":"add","path":"/w","value":1},{"op":"remove","path":"/w"}]`,
	"patchBigVal":   `[{"op":"add","path":"/bigv","value":{"member00":1,"list":[],"pad":"` + strings.Repeat("v", 1100) + `"}},{"op":"add","path":"/bigl","value":[` + strings.Repeat("1,", 600) + `1]},{"op":"add","path":"/bigv/extra","value":1},{"op":"add","path":"/bigv/list/-","value":"end"},{"op":"add","path":"/bigl/-","value":2},{"op":"remove","path":"/bigv/member00"}]`,
	"docEsc":        `{"caf\u00e9 au lait, s'il vous pla\u00eet":1,"long name with a \"quote\" and a \t tab in it":[2],"caf\u00e9":"\u00e9\ud83d\ude00 \u00fc","a\u002fb":[1,"\u00df"],"k\u0039":{"\u00e0":null}}`,
	"patchEsc":      `[{"op":"add","path":"/caf\u00e9x","value":"\u00fc\u00df"},{"op":"test","path":"/a~1b/0","value":1},{"op":"copy","from":"/k9","path":"/c\u00f9"},{"op":"test","path":"/caf\u00e9","value":"\u00e9\ud83d\ude00 \u00fc"}]`,
	"patchArrRepl":  `[{"op":"add","path":"/a/b/0","value":"the first, rather long value"},{"op":"copy","from":"/a/b/0","path":"/kept"},{"op":"replace","path":"/a/b/0","value":"short"},{"op":"add","path":"/a/b/1","value":{"name":"original"}},{"op":"replace","path":"/a/b/1","value":7}]`,
	"arrBad":        `[1,{"a":1},"s",{"b":2},[3]]`,
	"docDup":        `{"a":1,"b":2,"a":3,"c":{"x":1,"y":2,"x":3,"z":[{"k":1,"k":2,"j":0}]}}`,
	"patchDup":      `[{"op":"add","path":"/c/w","value":1},{"op":"test","path":"/b","value":2}]`,
	"docArrA":       `{"y":[{"a":1,"b":2},{"c":[1]}],"z":[[1,2],{"q":null}]}`,
	"docArrB":       `{"y":[{"b":2},{"d":[2]}],"z":[[3],{"r":1}]}`,
	"patchTstArrA":  `[{"op":"test","path":"/y","value":[{"a":1,"b":2},{"c":[1]}]},{"op":"test","path":"/z","value":[[1,2],{"q":null}]},{"op":"copy","from":"/y","path":"/w"},{"op":"add","path":"/w/0/n","value":1}]`,
	"patchTstArrB":  `[{"op":"test","path":"/y","value":[{"b":2},{"d":[2]}]},{"op":"test","path":"/z","value":[[3],{"r":1}]},{"op":"copy","from":"/y","path":"/w"},{"op":"add","path":"/w/1/n","value":1}]`,
	"patchTstArrF":  `[{"op":"test","path":"/y","value":[{"a":1,"b":2,"extra":true},{"c":[1]}]}]`,
	"patch64":       `[{"op":"add","path":"/n","value":{"v":1}},{"op":"test","path":"/n/v","value":1}]`,
	"patchBad":      `[{"op":"add","path":"/w","value":1},`,
	"patchInv":      `[{"op":"add","path":"/w"}]`,
	"patchObj":      `{}`,
	"mp1":           `{"a":{"b":null,"new":{"x":null,"y":[1,{"q":null}]}},"z":null,"k":2}`,
	"mp2":           `{"a":{"n":5},"k":null,"m":[1]}`,
	"mpArr":         `[{"a":null}]`,
	"mpScalar":      "  7",
	"mpNullDoc":     ` null`,
	"rootPatchS":    `[{"op":"replace","path":"","value":{"<k>":"&","o":{"<":1}}}]`,
	"tgtObj":        `{"a":{"b":[1,{"c":"<x>"}]},"k":1.00,"added":{"u":"é"}}`,
	"arrA":          `[{"a":1},{"b":{"c":2}}]`,
	"arrB":          `[{"a":2},{"b":{"c":2,"d":null}}]`,
	"eqA":           `{"x":[1,null,{"y":"A"}],"w":true}`,
	"eqB":           ` { "w" : true , "x" : [ 1 , null , { "y" : "A" } ] } `,
	// small inputs for the schedule engine (fewer scheduling points per call)
	"docS":      `{"a":{"b":[1]},"k":"<"}`,
	"patchS":    `[{"op":"copy","from":"/a","path":"/c"},{"op":"test","path":"/c/b","value":[ 1 ]},{"op":"add","path":"/a/b/-","value":{"v":null}},{"op":"replace","path":"/a/b/1/v","value":[1]}]`,
	"patchTstS": `[{"op":"test","path":"/k","value":"no"}]`,
	"mpS":       `{"a":{"b":null,"n":{"x":null}},"k":2}`,
	"tgtS":      `{"a":{"b":[2]},"q":1}`,
	"eqS1":      `{"x":[1,null],"w":true}`,
	"eqS2":      ` {"w":true,"x":[1,null]}`,
}

func newAPIWorld() *apiWorld {
	w := &apiWorld{bufs: map[string][]byte{}, snaps: map[string]string{}, patches: map[string]v5.Patch{}, psnaps: map[string]string{}}
	for k, t := range apiTexts {
		w.bufs[k] = []byte(t)
		w.snaps[k] = t
	}
	w.decodePatches()
	w.sharedOpt = v5.NewApplyOptions()
	w.sharedOpt.AccumulatedCopySizeLimit = 40
	w.sharedOpt.AllowMissingPathOnRemove = true
	w.optSnap = *w.sharedOpt
	w.sharedOptS = v5.NewApplyOptions()
	w.sharedOptS.AccumulatedCopySizeLimit = 12
	w.bufs["bigWide"] = []byte(strings.Replace(wide40(), `"k02":2.0`, `"k02":"`+strings.Repeat("w<", 700)+`"`, 1)) // about 2 KB compact
	w.snaps["bigWide"] = string(w.bufs["bigWide"])
	w.bufs["docDeep"] = []byte(deepDoc(12))
	w.snaps["docDeep"] = string(w.bufs["docDeep"])
	w.bufs["deepOpen"] = []byte(strings.Repeat("[", 2000))
	w.snaps["deepOpen"] = string(w.bufs["deepOpen"])
	w.bufs["deepOver"] = []byte(strings.Repeat("[", 10001) + strings.Repeat("]", 10001))
	w.snaps["deepOver"] = string(w.bufs["deepOver"])
	big := func(n int, tail string) string {
		var sb strings.Builder
		sb.WriteString(`{"pad":"`)
		sb.WriteString(strings.Repeat("x", 5000))
		sb.WriteString(`","n":` + fmt.Sprint(n) + tail)
		return sb.String()
	}
	w.bufs["deep3k"] = []byte(strings.Repeat("[", 3000) + `{"k":[1,"s"]}` + strings.Repeat("]", 3000))
	w.snaps["deep3k"] = string(w.bufs["deep3k"])
	w.bufs["doc64K"] = []byte(`{"a":[` + strings.Repeat(`{"k":"v<"},`, 6500) + `0],"z":1}`) // about 78 KB
	w.snaps["doc64K"] = string(w.bufs["doc64K"])
	for k, t := range map[string]string{"bigA": big(1, "}"), "bigB": big(2, "}"), "bigBad": big(1, ",}")} {
		w.bufs[k], w.snaps[k] = []byte(t), t
	}
	B := func(k string) []byte { return w.bufs[k] }
	opt := func() *v5.ApplyOptions {
		o := v5.NewApplyOptions()
		return o
	}
	w.calls = []apiCall{
		{"P.Apply(docObj)", true, func(w *apiWorld) ([]byte, error) { return w.patches["patchOK"].Apply(B("docObj")) }},
		{"Parr.Apply(docArr)", true, func(w *apiWorld) ([]byte, error) { return w.patches["patchArr"].Apply(B("docArr")) }},
		{"P.ApplyIndent(docObj)", true, func(w *apiWorld) ([]byte, error) { return w.patches["patchOK"].ApplyIndent(B("docObj"), "  ") }},
		{"Pdeep.ApplyIndent(docDeep, tab)", true, func(w *apiWorld) ([]byte, error) { return w.patches["patchDeep"].ApplyIndent(B("docDeep"), "\t") }},
		{"Pdeep.ApplyIndent(docDeep, two blanks)", true, func(w *apiWorld) ([]byte, error) { return w.patches["patchDeep"].ApplyIndent(B("docDeep"), "  ") }},
		{"P.ApplyWithOptions(docObj,limit=5)", true, func(w *apiWorld) ([]byte, error) {
			o := opt()
			o.AccumulatedCopySizeLimit = 5
			return w.patches["patchOK"].ApplyWithOptions(B("docObj"), o)
		}},
		{"P.ApplyWithOptions(docObj,noescape)", true, func(w *apiWorld) ([]byte, error) {
			o := opt()
			o.EscapeHTML = false
			return w.patches["patchOK"].ApplyWithOptions(B("docObj"), o)
		}},
		{"Ptst.Apply(docObj) [failing test]", true, func(w *apiWorld) ([]byte, error) { return w.patches["patchTst"].Apply(B("docObj")) }},
		{"P.Apply(docBad) [malformed]", true, func(w *apiWorld) ([]byte, error) { return w.patches["patchOK"].Apply(B("docBad")) }},
		{"P.Apply(docNum) [scalar root]", true, func(w *apiWorld) ([]byte, error) { return w.patches["patchOK"].Apply(B("docNum")) }},
		{"P.Apply(docArr) [inapplicable]", true, func(w *apiWorld) ([]byte, error) { return w.patches["patchOK"].Apply(B("docArr")) }},
		{"DecodePatch(patchOK)+Apply(docObj)", true, func(w *apiWorld) ([]byte, error) {
			p, err := v5.DecodePatch(B("patchOK"))
			if err != nil {
				return nil, err
			}
			return p.Apply(B("docObj"))
		}},
		{"accessors of the shared patch (Kind, Path, From, ValueInterface of every operation)", true, func(w *apiWorld) ([]byte, error) {
			var sb strings.Builder
			for _, op := range w.patches["patchBig"] {
				p, e1 := op.Path()
				f, e2 := op.From()
				v, e3 := op.ValueInterface()
				fmt.Fprintf(&sb, "%s %q %v %q %v %#v %v; ", op.Kind(), p, e1 != nil, f, e2 != nil, v, e3 != nil)
			}
			return []byte(sb.String()), nil
		}},
		{"DecodePatch(patchBad)", true, func(w *apiWorld) ([]byte, error) { return decodeOnly(B("patchBad")) }},
		{"DecodePatch(patchInv)", true, func(w *apiWorld) ([]byte, error) { return decodeOnly(B("patchInv")) }},
		{"DecodePatch(patchObj)", true, func(w *apiWorld) ([]byte, error) { return decodeOnly(B("patchObj")) }},
		{"MergePatch(docObj,mp1)", false, func(w *apiWorld) ([]byte, error) { return v5.MergePatch(B("docObj"), B("mp1")) }},
		{"MergePatch(eqA,mp1) [object document without the members the patch names]", false, func(w *apiWorld) ([]byte, error) { return v5.MergePatch(B("eqA"), B("mp1")) }},
		{"MergePatch(docObj,mpArr)", false, func(w *apiWorld) ([]byte, error) { return v5.MergePatch(B("docObj"), B("mpArr")) }},
		{"MergePatch(docArr,mp2)", false, func(w *apiWorld) ([]byte, error) { return v5.MergePatch(B("docArr"), B("mp2")) }},
		{"MergePatch(docBad,mp1) [malformed]", false, func(w *apiWorld) ([]byte, error) { return v5.MergePatch(B("docBad"), B("mp1")) }},
		{"MergePatch(docObj,mpScalar) [scalar patch with leading blanks]", false, func(w *apiWorld) ([]byte, error) { return v5.MergePatch(B("docObj"), B("mpScalar")) }},
		{"MergePatch(null,mp1) [null document: rejected]", false, func(w *apiWorld) ([]byte, error) { return v5.MergePatch(B("mpNullDoc"), B("mp1")) }},
		{"MergeMergePatches(null,mp2) [rejected]", false, func(w *apiWorld) ([]byte, error) { return v5.MergeMergePatches(B("mpNullDoc"), B("mp2")) }},
		{"MergeMergePatches(mp1,mp2)", false, func(w *apiWorld) ([]byte, error) { return v5.MergeMergePatches(B("mp1"), B("mp2")) }},
		{"CreateMergePatch(docObj,tgtObj)", true, func(w *apiWorld) ([]byte, error) { return v5.CreateMergePatch(B("docObj"), B("tgtObj")) }},
		{"CreateMergePatch(docObj,docObj) [equal documents]", true, func(w *apiWorld) ([]byte, error) { return v5.CreateMergePatch(B("docObj"), B("docObj")) }},
		{"CreateMergePatch(arrA,arrB)", true, func(w *apiWorld) ([]byte, error) { return v5.CreateMergePatch(B("arrA"), B("arrB")) }},
		{"CreateMergePatch(docObj,docArr) [rejected]", true, func(w *apiWorld) ([]byte, error) { return v5.CreateMergePatch(B("docObj"), B("docArr")) }},
		{"CreateMergePatch(docBad,docObj) [malformed]", true, func(w *apiWorld) ([]byte, error) { return v5.CreateMergePatch(B("docBad"), B("docObj")) }},
		{"Equal(eqA,eqB)", true, func(w *apiWorld) ([]byte, error) { return boolBytes(v5.Equal(B("eqA"), B("eqB"))), nil }},
		{"Equal(docObj,tgtObj)", true, func(w *apiWorld) ([]byte, error) { return boolBytes(v5.Equal(B("docObj"), B("tgtObj"))), nil }},
		{"Equal(docBad,docBad) [malformed]", true, func(w *apiWorld) ([]byte, error) { return boolBytes(v5.Equal(B("docBad"), B("docBad"))), nil }},
		{"Ps.Apply(docS)", true, func(w *apiWorld) ([]byte, error) { return w.patches["patchS"].Apply(B("docS")) }},
		{"Ps.ApplyWithOptions(docS, SHARED opts limit=12)", true, func(w *apiWorld) ([]byte, error) {
			return w.patches["patchS"].ApplyWithOptions(B("docS"), w.sharedOptS)
		}},
		{"ProotS.ApplyWithOptions(docS, noescape) [root replaced]", true, func(w *apiWorld) ([]byte, error) {
			o := opt()
			o.EscapeHTML = false
			return w.patches["rootPatchS"].ApplyWithOptions(B("docS"), o)
		}},
		{"ProotS.Apply(docS) [root replaced]", true, func(w *apiWorld) ([]byte, error) { return w.patches["rootPatchS"].Apply(B("docS")) }},
		{"Ps.ApplyIndent(docS)", true, func(w *apiWorld) ([]byte, error) { return w.patches["patchS"].ApplyIndent(B("docS"), " ") }},
		{"DecodePatch(patchS)+Apply(docS)", true, func(w *apiWorld) ([]byte, error) {
			p, err := v5.DecodePatch(B("patchS"))
			if err != nil {
				return nil, err
			}
			return p.Apply(B("docS"))
		}},
		{"MergePatch(docS,mpS)", false, func(w *apiWorld) ([]byte, error) { return v5.MergePatch(B("docS"), B("mpS")) }},
		{"CreateMergePatch(docS,tgtS)", true, func(w *apiWorld) ([]byte, error) { return v5.CreateMergePatch(B("docS"), B("tgtS")) }},
		{"Equal(eqS1,eqS2)", true, func(w *apiWorld) ([]byte, error) { return boolBytes(v5.Equal(B("eqS1"), B("eqS2"))), nil }},
		{"PtstS.Apply(docS) [failing test]", true, func(w *apiWorld) ([]byte, error) { return w.patches["patchTstS"].Apply(B("docS")) }},
		{"Ps.Apply(docBad) [malformed]", true, func(w *apiWorld) ([]byte, error) { return w.patches["patchS"].Apply(B("docBad")) }},
		// one shared *ApplyOptions value (limit 40): a succeeding call, one that copies and then fails, one stopped by the limit
		{"P.ApplyWithOptions(docObj, SHARED opts limit=40)", true, func(w *apiWorld) ([]byte, error) {
			return w.patches["patchOK"].ApplyWithOptions(B("docObj"), w.sharedOpt)
		}},
		{"PcopyFail.ApplyWithOptions(docObj, SHARED opts) [copies, then a test fails]", true, func(w *apiWorld) ([]byte, error) {
			return w.patches["patchCopyFail"].ApplyWithOptions(B("docObj"), w.sharedOpt)
		}},
		{"PcopyBig.ApplyIndentWithOptions(docObj, SHARED opts) [stopped by the limit]", true, func(w *apiWorld) ([]byte, error) {
			return w.patches["patchCopyBig"].ApplyIndentWithOptions(B("docObj"), " ", w.sharedOpt)
		}},
		{"PmoveFail.ApplyWithOptions(docObj, SHARED opts) [skipped remove, then a move whose destination parent is missing]", true, func(w *apiWorld) ([]byte, error) {
			return w.patches["patchMoveFail"].ApplyWithOptions(B("docObj"), w.sharedOpt)
		}},
		{"PrmAbsent.ApplyWithOptions(docObj, SHARED opts) [removes of absent targets are skipped]", true, func(w *apiWorld) ([]byte, error) {
			return w.patches["patchRmAbsent"].ApplyWithOptions(B("docObj"), w.sharedOpt)
		}},
		{"PbigVal.Apply(docObj) [values beyond 1 KiB that later operations walk into]", true, func(w *apiWorld) ([]byte, error) {
			return w.patches["patchBigVal"].Apply(B("docObj"))
		}},
		{"Pesc.Apply(docEsc) [\\u escapes in names, values and pointers]", true, func(w *apiWorld) ([]byte, error) { return w.patches["patchEsc"].Apply(B("docEsc")) }},
		{"P64.ApplyIndentWithOptions(doc64K, compact, SHARED opts)", true, func(w *apiWorld) ([]byte, error) {
			return w.patches["patch64"].ApplyIndentWithOptions(B("doc64K"), "", w.sharedOpt)
		}},
		{"P64.ApplyIndentWithOptions(doc64K, two blanks, SHARED opts)", true, func(w *apiWorld) ([]byte, error) {
			return w.patches["patch64"].ApplyIndentWithOptions(B("doc64K"), "  ", w.sharedOpt)
		}},
		{"P64.ApplyIndentWithOptions(doc64K, tab, SHARED opts)", true, func(w *apiWorld) ([]byte, error) {
			return w.patches["patch64"].ApplyIndentWithOptions(B("doc64K"), "\t", w.sharedOpt)
		}},
		// the Operation accessors on the SHARED decoded patches (a lazily cached decoded value would be state in the Patch)
		{"P.accessors() [Kind, Path, From, ValueInterface of every operation]", true, func(w *apiWorld) ([]byte, error) { return accessorsOf(w.patches["patchOK"]), nil }},
		{"Ps.accessors() [Kind, Path, From, ValueInterface of every operation]", true, func(w *apiWorld) ([]byte, error) { return accessorsOf(w.patches["patchS"]), nil }},
		{"legacy Lp.accessors()", false, func(w *apiWorld) ([]byte, error) {
			var sb strings.Builder
			for _, op := range w.lpatch {
				pth, e1 := op.Path()
				fr, e2 := op.From()
				v, e3 := op.ValueInterface()
				fmt.Fprintf(&sb, "%s|%s|%v|%s|%v|%v|%v;", op.Kind(), pth, e1, fr, e2, v, e3)
			}
			return []byte(sb.String()), nil
		}},
		{"Equal(deep3k,deep3k) [nesting 3000: several at once exceed any process-wide depth budget]", true, func(w *apiWorld) ([]byte, error) { return boolBytes(v5.Equal(B("deep3k"), B("deep3k"))), nil }},
		{"ParrRepl.Apply(docObj) [add into an array slot, copy it, replace it - twice]", true, func(w *apiWorld) ([]byte, error) { return w.patches["patchArrRepl"].Apply(B("docObj")) }},
		{"MergePatch(docEsc,mp1) [long member names with escapes]", false, func(w *apiWorld) ([]byte, error) { return v5.MergePatch(B("docEsc"), B("mp1")) }},
		{"Pdup.Apply(docDup) [repeated member names at two levels]", true, func(w *apiWorld) ([]byte, error) { return w.patches["patchDup"].Apply(B("docDup")) }},
		{"Pdup.ApplyIndent(docDup) [repeated member names at two levels]", true, func(w *apiWorld) ([]byte, error) { return w.patches["patchDup"].ApplyIndent(B("docDup"), " ") }},
		{"PtstArrA.Apply(docArrA) [tests and copies of arrays of objects]", true, func(w *apiWorld) ([]byte, error) { return w.patches["patchTstArrA"].Apply(B("docArrA")) }},
		{"PtstArrB.Apply(docArrB) [the same shapes, other member names]", true, func(w *apiWorld) ([]byte, error) { return w.patches["patchTstArrB"].Apply(B("docArrB")) }},
		{"PtstArrF.Apply(docArrA) [failing test of an array of objects]", true, func(w *apiWorld) ([]byte, error) { return w.patches["patchTstArrF"].Apply(B("docArrA")) }},
		{"CreateMergePatch(arrBad,arrBad) [three elements that are not objects]", true, func(w *apiWorld) ([]byte, error) { return v5.CreateMergePatch(B("arrBad"), B("arrBad")) }},
		// rejected inputs with very many open containers (the scanner keeps / drops its stack)
		{"Equal(deepOpen,docObj) [2000 unclosed brackets]", true, func(w *apiWorld) ([]byte, error) { return boolBytes(v5.Equal(B("deepOpen"), B("docObj"))), nil }},
		{"P.Apply(deepOver) [nesting 10001]", true, func(w *apiWorld) ([]byte, error) { return w.patches["patchOK"].Apply(B("deepOver")) }},
		// package-level defaults are read on every call (never cached): the same calls under changed defaults
		{"AccumulatedCopySizeLimit=5: P.Apply(docObj)", true, func(w *apiWorld) ([]byte, error) {
			old := v5.AccumulatedCopySizeLimit
			v5.AccumulatedCopySizeLimit = 5
			defer func() { v5.AccumulatedCopySizeLimit = old }()
			return w.patches["patchOK"].Apply(B("docObj"))
		}},
		{"AccumulatedCopySizeLimit=5: P.ApplyIndent(docObj)", true, func(w *apiWorld) ([]byte, error) {
			old := v5.AccumulatedCopySizeLimit
			v5.AccumulatedCopySizeLimit = 5
			defer func() { v5.AccumulatedCopySizeLimit = old }()
			return w.patches["patchOK"].ApplyIndent(B("docObj"), "  ")
		}},
		{"SupportNegativeIndices=false: Pneg.ApplyIndent(docArr)", true, func(w *apiWorld) ([]byte, error) {
			old := v5.SupportNegativeIndices
			v5.SupportNegativeIndices = false
			defer func() { v5.SupportNegativeIndices = old }()
			return w.patches["patchNeg"].ApplyIndent(B("docArr"), "\t")
		}},
		{"Pneg.ApplyIndent(docArr)", true, func(w *apiWorld) ([]byte, error) { return w.patches["patchNeg"].ApplyIndent(B("docArr"), "\t") }},
		{"Pneg.Apply(docArr)", true, func(w *apiWorld) ([]byte, error) { return w.patches["patchNeg"].Apply(B("docArr")) }},
		{"PbigS.ApplyIndent(wideDoc) [result > 1 KiB]", true, func(w *apiWorld) ([]byte, error) { return w.patches["patchWide"].ApplyIndent(B("bigWide"), " ") }},
		{"PbigS.ApplyIndentWithOptions(wideDoc, tab) [result > 1 KiB]", true, func(w *apiWorld) ([]byte, error) {
			return w.patches["patchWide"].ApplyIndentWithOptions(B("bigWide"), "\t", opt())
		}},
		{"CreateMergePatch(bigA,bigB) [5 KB documents]", true, func(w *apiWorld) ([]byte, error) { return v5.CreateMergePatch(B("bigA"), B("bigB")) }},
		{"CreateMergePatch(bigBad,bigB) [5 KB, first malformed]", true, func(w *apiWorld) ([]byte, error) { return v5.CreateMergePatch(B("bigBad"), B("bigB")) }},
		{"legacy Lp.Apply(docObj)", false, func(w *apiWorld) ([]byte, error) { return w.lpatch.Apply(B("docObj")) }},
		{"legacy LpNull.Apply(docObj) [a null entry in front of an operation]", false, func(w *apiWorld) ([]byte, error) { return w.lpatch2.Apply(B("docObj")) }},
		{"legacy MergePatch(docObj,mp1)", false, func(w *apiWorld) ([]byte, error) { return v4.MergePatch(B("docObj"), B("mp1")) }},
	}
	for i, c := range w.calls {
		if !strings.Contains(c.Name, "docS") && !strings.Contains(c.Name, "patchS") && !strings.Contains(c.Name, "eqS1") && !strings.HasPrefix(c.Name, "Ps.") && !strings.HasPrefix(c.Name, "ProotS.") && !strings.HasPrefix(c.Name, "CreateMergePatch(big") && !strings.HasPrefix(c.Name, "PbigS.") && !strings.HasPrefix(c.Name, "P64.") && !strings.HasPrefix(c.Name, "Equal(deep3k") {
			w.menu = append(w.menu, i)
		}
	}
	return w
}

// soloOutcomes computes, for every call, its outcome in a BRAND-NEW PROCESS (one
// process per call): the reference "result of the call made alone". State that a
// call leaves anywhere in the process (not only in the shimmed pools) therefore
// cannot leak into the reference.
func (w *apiWorld) soloOutcomes() []string {
	out := make([]string, len(w.calls))
	var wg sync.WaitGroup
	sem := make(chan struct{}, 16)
	var failed atomic.Value
	for i := range w.calls {
		wg.Add(1)
		go func(i int) {
			defer wg.Done()
			sem <- struct{}{}
			defer func() { <-sem }()
			cmd := exec.Command(os.Args[0], "solo", fmt.Sprint(i))
			cmd.Env = append(os.Environ(), "VERIF_SHARD=solo")
			b, err := cmd.Output()
			if err != nil {
				failed.Store(fmt.Sprintf("solo process for call %d (%s) failed: %v", i, w.calls[i].Name, err))
				return
			}
			var s string
			if err := json.Unmarshal(b, &s); err != nil {
				failed.Store(fmt.Sprintf("solo process for call %d: bad output %q", i, b))
				return
			}
			out[i] = s
		}(i)
	}
	wg.Wait()
	if f := failed.Load(); f != nil {
		fmt.Fprintln(os.Stderr, "harness:", f)
		os.Exit(2)
	}
	return out
}

func init() {
	extraCommands["solo"] = func(args []string) {
		zs.SetController(&seqCtl{})
		w := newAPIWorld()
		var i int
		fmt.Sscanf(args[0], "%d", &i)
		b, _ := json.Marshal(w.outcome(i))
		os.Stdout.Write(b)
	}
}

func boolBytes(b bool) []byte { return []byte(fmt.Sprint(b)) }

func decodeOnly(b []byte) ([]byte, error) {
	p, err := v5.DecodePatch(b)
	if err != nil {
		if p != nil {
			return nil, errors.New("non-nil patch with error: " + err.Error())
		}
		return nil, err
	}
	return []byte(fmt.Sprintf("patch of %d ops", len(p))), nil
}

func (w *apiWorld) decodePatches() {
	for _, k := range []string{"patchOK", "patchArr", "patchTst", "patchNeg", "patchCopyFail", "patchCopyBig", "patchBig", "patchDeep", "patchWide", "patchS", "patchTstS", "rootPatchS", "patchMoveFail", "patchRmAbsent", "patchBigVal", "patchEsc", "patch64", "patchArrRepl", "patchDup", "patchTstArrA", "patchTstArrB", "patchTstArrF"} {
		p, err := v5.DecodePatch([]byte(apiTexts[k])) // from a private copy: the Patch must not alias a shared buffer
		if err != nil {
			panic("harness patch " + k + ": " + err.Error())
		}
		w.patches[k] = p
		w.psnaps[k] = dumpValue(p)
		if w.pshape == nil {
			w.pshape = map[string]*patchShape{}
		}
		w.pshape[k] = shapeOf(len(p), func(i int, f func(k string, p unsafe.Pointer, b []byte)) {
			for kk, vv := range p[i] {
				if vv == nil {
					f(kk, nil, nil)
				} else {
					f(kk, unsafe.Pointer(vv), *vv)
				}
			}
		})
	}
	// the legacy Patch: patchOK followed by the operations of patchBigVal (values beyond 1 KiB that later operations walk into)
	// (its test compares a number: the legacy test compares string spellings, so strings with < are outside C18's domain
	// and a patch testing one would fail on every call, leaving the history with nothing to observe)
	ltext := strings.Replace(apiTexts["patchOK"], `{"op":"test","path":"/cp","value":{ "c" : "<x>" }}`, `{"op":"test","path":"/k","value":1.0}`, 1)
	if ltext == apiTexts["patchOK"] {
		panic("harness: legacy patch text not adapted")
	}
	lp, err := v4.DecodePatch([]byte(strings.TrimSuffix(ltext, "]") + "," + strings.TrimPrefix(apiTexts["patchBigVal"], "[")))
	if err != nil {
		panic(err)
	}
	w.lpatch, w.lpsnap = lp, dumpValue(lp)
	w.lpshape = shapeOf(len(lp), func(i int, f func(k string, p unsafe.Pointer, b []byte)) {
		for kk, vv := range lp[i] {
			if vv == nil {
				f(kk, nil, nil)
			} else {
				f(kk, unsafe.Pointer(vv), *vv)
			}
		}
	})
	lp2, err := v4.DecodePatch([]byte(`[null,{"op":"add","path":"/a/b/-","value":1},null]`))
	if err != nil {
		panic(err)
	}
	w.lpatch2, w.lpsnap2, w.lpshape2 = lp2, dumpValue(lp2), legacyShape(lp2)
}

func legacyShape(lp v4.Patch) *patchShape {
	return shapeOf(len(lp), func(i int, f func(k string, p unsafe.Pointer, b []byte)) {
		for kk, vv := range lp[i] {
			if vv == nil {
				f(kk, nil, nil)
			} else {
				f(kk, unsafe.Pointer(vv), *vv)
			}
		}
	})
}

// outcome runs call i and returns its canonical outcome text.
func (w *apiWorld) outcome(i int) (out string) {
	defer func() {
		if r := recover(); r != nil {
			out = fmt.Sprintf("PANIC: %v", r)
		}
	}()
	c := w.calls[i]
	b, err := c.run(w)
	if w.scribble && len(b) > 0 && !w.aliasesInput(b) {
		defer func() {
			// the result belongs to the caller: the caller overwrites it (after it has been read below)
			for i := range b {
				b[i] = 0xAA
			}
		}()
	}
	if w.keep != nil && len(b) > 0 {
		*w.keep = append(*w.keep, keptResult{call: c.Name, raw: b, snap: string(b)})
	}
	if err != nil {
		if w.keep != nil {
			*w.keep = append(*w.keep, keptResult{call: c.Name, err: err, etxt: err.Error()})
		}
		if b != nil {
			return "err+doc: " + err.Error() + " / " + string(b)
		}
		return "err: " + err.Error()
	}
	if c.Exact {
		return "ok: " + string(b)
	}
	v, perr := rj.Parse(b)
	if perr != nil {
		return "ok-but-not-json: " + string(b)
	}
	return "ok-value: " + rj.Canon(v)
}

// aliasesInput: b shares memory with one of the caller's own input buffers (MergePatch hands a
// non-object patch back as it is) - overwriting it would change the caller's input, not library state.
func (w *apiWorld) aliasesInput(b []byte) bool {
	lo := uintptr(unsafe.Pointer(&b[0]))
	hi := lo + uintptr(len(b))
	for _, in := range w.bufs {
		if len(in) == 0 {
			continue
		}
		ilo := uintptr(unsafe.Pointer(&in[0]))
		if lo < ilo+uintptr(cap(in)) && ilo < hi {
			return true
		}
	}
	return false
}

// inputsIntact compares every shared buffer and Patch with its snapshot; on a
// difference it restores the object (so later executions start clean) and
// reports what changed.
func (w *apiWorld) inputsIntact() []string {
	var bad []string
	for k, b := range w.bufs {
		if string(b) != w.snaps[k] {
			bad = append(bad, fmt.Sprintf("input buffer %s was modified: %q -> %q", k, w.snaps[k], b))
			w.bufs[k] = []byte(w.snaps[k])
		}
	}
	if w.sharedOptS.AccumulatedCopySizeLimit != 12 {
		bad = append(bad, "the shared ApplyOptions value (small inputs) was modified")
		w.sharedOptS.AccumulatedCopySizeLimit = 12
	}
	if *w.sharedOpt != w.optSnap {
		bad = append(bad, fmt.Sprintf("the shared ApplyOptions value was modified: %+v -> %+v", w.optSnap, *w.sharedOpt))
		*w.sharedOpt = w.optSnap
	}
	redecode := false
	for k, p := range w.patches {
		if !w.pshape[k].same(p) {
			bad = append(bad, fmt.Sprintf("shared Patch %s was modified: %s -> %s", k, w.psnaps[k], dumpValue(p)))
			redecode = true
		}
	}
	if !w.lpshape.sameLegacy(w.lpatch) {
		bad = append(bad, "shared legacy Patch was modified: "+w.lpsnap+" -> "+dumpValue(w.lpatch))
		redecode = true
	}
	if !w.lpshape2.sameLegacy(w.lpatch2) {
		bad = append(bad, "shared legacy Patch (with null entries) was modified: "+w.lpsnap2+" -> "+dumpValue(w.lpatch2))
		redecode = true
	}
	if redecode {
		w.decodePatches()
	}
	return bad
}

var _ = reflect.TypeOf

// patchShape is an exact snapshot of a Patch: per operation, per member, the
// pointer identity of the raw message and a copy of its bytes.
type patchShape struct {
	ops []map[string]shapeEnt
}

type shapeEnt struct {
	p unsafe.Pointer
	b string
}

func shapeOf(n int, each func(i int, f func(k string, p unsafe.Pointer, b []byte))) *patchShape {
	s := &patchShape{}
	for i := 0; i < n; i++ {
		m := map[string]shapeEnt{}
		each(i, func(k string, p unsafe.Pointer, b []byte) { m[k] = shapeEnt{p, string(b)} })
		s.ops = append(s.ops, m)
	}
	return s
}

func (s *patchShape) same(p v5.Patch) bool {
	if len(p) != len(s.ops) {
		return false
	}
	for i, op := range p {
		if len(op) != len(s.ops[i]) {
			return false
		}
		for k, v := range op {
			e, ok := s.ops[i][k]
			if !ok || unsafe.Pointer(v) != e.p || (v != nil && string(*v) != e.b) {
				return false
			}
		}
	}
	return true
}

func (s *patchShape) sameLegacy(p v4.Patch) bool {
	if len(p) != len(s.ops) {
		return false
	}
	for i, op := range p {
		if len(op) != len(s.ops[i]) {
			return false
		}
		for k, v := range op {
			e, ok := s.ops[i][k]
			if !ok || unsafe.Pointer(v) != e.p || (v != nil && string(*v) != e.b) {
				return false
			}
		}
	}
	return true
}

// decodeBufferReuse: a caller reads patch A into a buffer, decodes it, later refills THE SAME buffer with
// patch B (same length) and decodes that too. Patch A must go on behaving as patch A: a decoded Patch that
// aliases the decode buffer changes under the caller's feet although no library call was given it to modify.
// Returns one line per deviation.
func decodeBufferReuse() []string {
	pad := func(s string, n int) string { return s + strings.Repeat(" ", n-len(s)) }
	pairs := [][2]string{
		{`[{"op":"add","path":"/a","value":{"k":[1,2,3]}},{"op":"add","path":"/n","value":[true]}]`, `[{"op":"add","path":"/a","value":{"z":[9,9,9]}},{"op":"add","path":"/n","value":[null]}]`},
		{`[{"op":"add","path":"/s","value":"text"},{"op":"test","path":"/s","value":"text"}]`, `[{"op":"add","path":"/t","value":"TEXT"},{"op":"test","path":"/t","value":"TEXT"}]`},
		{`[{"op":"add","path":"/q","value":12345},{"op":"copy","from":"/q","path":"/r"}]`, `[{"op":"add","path":"/w","value":99999},{"op":"move","from":"/w","path":"/r"}]`},
		{`[{"op":"add","path":"/big","value":{"pad":"` + strings.Repeat("a", 1200) + `"}},{"op":"add","path":"/big/x","value":1}]`, `[{"op":"add","path":"/BIG","value":{"PAD":"` + strings.Repeat("b", 1200) + `"}},{"op":"add","path":"/BIG/y","value":2}]`},
	}
	doc := []byte(`{"x":0}`)
	var bad []string
	for _, pr := range pairs {
		n := len(pr[0])
		if len(pr[1]) > n {
			n = len(pr[1])
		}
		a, b := pad(pr[0], n), pad(pr[1], n)
		for _, lib := range []string{"v5", "legacy"} {
			apply := func(text []byte) (func() string, error) {
				if lib == "v5" {
					p, err := v5.DecodePatch(text)
					return func() string { o, e := p.Apply(doc); return fmt.Sprintf("%s|%v", o, e) }, err
				}
				p, err := v4.DecodePatch(text)
				return func() string { o, e := p.Apply(doc); return fmt.Sprintf("%s|%v", o, e) }, err
			}
			want, err := apply([]byte(a)) // a private buffer nobody touches again
			if err != nil {
				bad = append(bad, "harness: "+err.Error())
				continue
			}
			buf := []byte(a)
			got, _ := apply(buf)
			first := got()
			copy(buf, b)
			if _, err := apply(buf); err != nil {
				bad = append(bad, "harness: "+err.Error())
			}
			second := got()
			if first != want() || second != want() {
				bad = append(bad, fmt.Sprintf("[%s] patch %s decoded from a buffer the caller later refilled with %s: before the refill Apply gives %s, after it %s; decoded from a private buffer %s", lib, clip(pr[0], 90), clip(pr[1], 60), clip(first, 120), clip(second, 120), clip(want(), 120)))
			}
		}
	}
	return bad
}

func accessorsOf(p v5.Patch) []byte {
	var sb strings.Builder
	for _, op := range p {
		pth, e1 := op.Path()
		fr, e2 := op.From()
		v, e3 := op.ValueInterface()
		fmt.Fprintf(&sb, "%s|%s|%v|%s|%v|%v|%v;", op.Kind(), pth, e1, fr, e2, v, e3)
	}
	return []byte(sb.String())
}
