package main

import (
	"bytes"
	"encoding/json"
	"fmt"
	"strings"
	"sync/atomic"
	"time"
	"unicode/utf8"

	"verif.local/h/core"
	"verif.local/h/impl"
	r73 "verif.local/h/ref7396"
	rj "verif.local/h/refjson"
)

// E2 mergex: documents as states, merge patches as edges; value families
// enumerated exhaustively and every edge / pair / triple run on the real code.

// ---- value families ----

type family struct {
	all  []*rj.Value
	objs []*rj.Value
}

func mkFamily(src []string) []*rj.Value { return parseAll(src) }

var (
	scalars = []string{`1`, `2`, `"s"`, `null`, `true`, `1.0`}
	elems0  = []string{`1`, `null`, `"s"`}
	membs0  = []string{`1`, `null`, `"s"`, `2`}
)

// arraysOver: all arrays of <= 2 elements over elems.
func arraysOver(elems []*rj.Value) []*rj.Value {
	out := []*rj.Value{rj.NewArr()}
	for _, a := range elems {
		out = append(out, rj.NewArr(rj.Clone(a)))
	}
	for _, a := range elems {
		for _, b := range elems {
			out = append(out, rj.NewArr(rj.Clone(a), rj.Clone(b)))
		}
	}
	return out
}

// objectsOver: all objects whose members are drawn from names (each absent or
// one of vals), members in the order of names.
func objectsOver(names []string, vals []*rj.Value) []*rj.Value {
	out := []*rj.Value{rj.NewObj()}
	for _, n := range names {
		var next []*rj.Value
		for _, o := range out {
			next = append(next, o)
			for _, v := range vals {
				c := rj.Clone(o)
				c.O = append(c.O, rj.Member{Name: n, V: rj.Clone(v)})
				next = append(next, c)
			}
		}
		out = next
	}
	return out
}

func dedupe(vs []*rj.Value) []*rj.Value {
	seen := map[string]bool{}
	var out []*rj.Value
	for _, v := range vs {
		k := string(rj.Compact(v, rj.PrintOpts{}))
		if !seen[k] {
			seen[k] = true
			out = append(out, v)
		}
	}
	return out
}

// families by level
func famV1() []*rj.Value {
	v := parseAll(scalars)
	v = append(v, arraysOver(parseAll(elems0))...)
	v = append(v, objectsOver([]string{"a", "b"}, parseAll(membs0))...)
	return dedupe(v)
}

var membs1 = []string{`1`, `null`, `"s"`, `2`, `{}`, `{"a":1}`, `{"a":null}`, `{"a":2,"b":1}`, `[]`, `[1]`, `[null]`, `[{"a":null}]`}
var elems1 = []string{`1`, `null`, `{}`, `{"a":1}`, `{"a":null}`, `[1]`, `[null]`}

func famV2() []*rj.Value {
	v := parseAll(scalars)
	v = append(v, arraysOver(parseAll(elems1))...)
	v = append(v, objectsOver([]string{"a", "b"}, parseAll(membs1))...)
	return dedupe(v)
}

var membs2 = []string{`1`, `null`, `{}`, `{"a":1}`, `{"a":null}`, `{"a":{"a":1}}`, `{"a":{"a":null}}`, `{"a":{"b":2},"b":1}`, `{"a":[{"a":null}]}`, `[]`, `[null,{"a":null}]`, `{"a":"s","b":{"a":null,"b":1}}`}

// famV3: objects over {a,b,c} (c only scalar-valued) with depth-3 members.
func famV3() []*rj.Value {
	v := famV2()
	o := objectsOver([]string{"a", "b"}, parseAll(membs2))
	v = append(v, o...)
	for _, x := range objectsOver([]string{"a"}, parseAll(membs2)) {
		for _, c := range parseAll([]string{`1`, `null`}) {
			y := rj.Clone(x)
			y.O = append(y.O, rj.Member{Name: "c", V: c})
			v = append(v, y)
		}
	}
	return dedupe(v)
}

// famV4: every object over {a,b,c} with each member absent or one of the 12 depth-1/2 member
// values of V2 (13^3 objects), every array of <= 3 elements over the 7 element values, scalars.
func famV4() []*rj.Value {
	v := parseAll(scalars)
	elems := parseAll(elems1)
	v = append(v, arraysOver(elems)...)
	for _, a := range elems {
		for _, b := range elems {
			for _, c := range elems {
				v = append(v, rj.NewArr(rj.Clone(a), rj.Clone(b), rj.Clone(c)))
			}
		}
	}
	v = append(v, objectsOver([]string{"a", "b", "c"}, parseAll(membs1))...)
	v = append(v, famV3()...)
	return dedupe(v)
}

func onlyObjs(vs []*rj.Value) []*rj.Value {
	var out []*rj.Value
	for _, v := range vs {
		if v.K == rj.Obj {
			out = append(out, v)
		}
	}
	return out
}

func txt(v *rj.Value) string {
	return string(rj.Compact(v, rj.PrintOpts{KeepLits: true, KeepNameLits: true}))
}

// spelling variants of a value: members reversed, padded with whitespace,
// strings and names \u-escaped.
func variants(v *rj.Value) []string { return variantsEsc(v, true) }

func variantsEsc(v *rj.Value, withEscapes bool) []string {
	base := txt(v)
	out := []string{base}
	rev := txt(respell(v))
	if rev != base {
		out = append(out, rev)
	}
	// whitespace at every gap class
	var sb strings.Builder
	sb.WriteString("\r \n\t")
	inStr, esc := false, false
	for i := 0; i < len(base); i++ {
		c := base[i]
		if inStr {
			sb.WriteByte(c)
			if esc {
				esc = false
			} else if c == '\\' {
				esc = true
			} else if c == '"' {
				inStr = false
			}
			continue
		}
		switch c {
		case '"':
			inStr = true
			sb.WriteByte(c)
		case '{', '[', ',', ':':
			sb.WriteByte(c)
			sb.WriteString(" \t")
		case '}', ']':
			sb.WriteString("\r\n")
			sb.WriteByte(c)
		default:
			sb.WriteByte(c)
		}
	}
	sb.WriteString("\t ")
	out = append(out, sb.String())
	// escaped strings
	if withEscapes && (strings.Contains(base, `"s"`) || strings.Contains(base, `"a"`)) {
		e := strings.ReplaceAll(base, `"s"`, `"\u0073"`)
		e = strings.ReplaceAll(e, `"a"`, `"\u0061"`)
		out = append(out, e)
	}
	return out
}

// ---- case records ----

type MergeCase struct {
	Lib  string   `json:"lib"`
	Func string   `json:"func"`
	Args []string `json:"args"`
}

type mergeRun struct {
	id     string
	legacy bool
	ctx    *core.Ctx
	w      *core.Worker
}

func (m *mergeRun) lib() string {
	if m.legacy {
		return "v4"
	}
	return "v5"
}

func (m *mergeRun) viol(clause, key, detail, fn string, args ...string) {
	c := MergeCase{Lib: m.lib(), Func: fn, Args: args}
	pkg := `jsonpatch "github.com/evanphx/json-patch/v5"`
	if m.legacy {
		pkg = `jsonpatch "github.com/evanphx/json-patch"`
	}
	qa := make([]string, len(args))
	for i, a := range args {
		qa[i] = fmt.Sprintf("[]byte(%q)", a)
	}
	gt := fmt.Sprintf("// import %s\nfunc TestReplay(t *testing.T) {\n\tt.Log(jsonpatch.%s(%s))\n}\n", pkg, fn, strings.Join(qa, ", "))
	m.ctx.Violate(core.Violation{Property: m.id, Clause: clause, Key: m.id + ":" + key, Detail: detail, Engine: "mergex", Case: core.J(c), GoTest: gt})
}

func (m *mergeRun) tick(fn string, args ...string) {
	m.w.Tick(func() string { b, _ := json.Marshal(MergeCase{Lib: m.lib(), Func: fn, Args: args}); return string(b) })
	atomic.AddInt64(&nExec, 1)
}

// orderVariants (set in the shim flavour): runs a call under the default (sorted) order of every
// map iteration inside the library and under every rotation of each one in turn.
var orderVariants func(call func() impl.R) []impl.R

// underOrders runs call once (plain flavour) or under every owned map-iteration order (shim
// flavour); the default-order result is returned to the ordinary oracle, and any other order whose
// outcome differs from it by more than member order is a violation of its own.
func (m *mergeRun) underOrders(fn string, call func() impl.R, args ...string) impl.R {
	if orderVariants == nil || m.legacy {
		return call()
	}
	rs := orderVariants(call)
	m.ctx.Count("map_order_variants_run", int64(len(rs)-1))
	for _, r := range rs[1:] {
		atomic.AddInt64(&nExec, 1)
		if outcomeKey(r) != outcomeKey(rs[0]) {
			m.viol("result-depends-on-map-order", "result-depends-on-map-order:"+fn,
				fmt.Sprintf("%s(%s): with the library's map iterations in sorted order the outcome is %s; with one of them rotated it is %s", fn, strings.Join(quoteAll(args), ", "), outcomeKey(rs[0]), outcomeKey(r)), fn, args...)
			break
		}
	}
	return rs[0]
}

// outcomeKey: error text / panic / boolean / the JSON value (member order ignored).
func outcomeKey(r impl.R) string {
	switch {
	case r.Panic != "":
		return "panic"
	case r.Err != "":
		return "error: " + r.Err
	case r.Out == nil:
		return fmt.Sprintf("bool %v", r.Bool)
	}
	if v, err := rj.Parse(r.Out); err == nil {
		return "value " + rj.Canon(v)
	}
	return "text " + string(r.Out)
}

func (m *mergeRun) MergePatch(d, p string) impl.R {
	m.tick("MergePatch", d, p)
	return m.underOrders("MergePatch", func() impl.R { return impl.MergePatch(m.legacy, []byte(d), []byte(p)) }, d, p)
}
func (m *mergeRun) MergeMerge(a, b string) impl.R {
	m.tick("MergeMergePatches", a, b)
	return m.underOrders("MergeMergePatches", func() impl.R { return impl.MergeMergePatches(m.legacy, []byte(a), []byte(b)) }, a, b)
}
func (m *mergeRun) Create(a, b string) impl.R {
	m.tick("CreateMergePatch", a, b)
	return m.underOrders("CreateMergePatch", func() impl.R { return impl.CreateMergePatch(m.legacy, []byte(a), []byte(b)) }, a, b)
}
func (m *mergeRun) Equal(a, b string) impl.R {
	m.tick("Equal", a, b)
	return m.underOrders("Equal", func() impl.R { return impl.Equal(m.legacy, []byte(a), []byte(b)) }, a, b)
}

// notUTF8 is the C15 clause "valid UTF-8 given UTF-8 input".
func notUTF8(out []byte, inputs ...string) bool {
	for _, in := range inputs {
		if !utf8.ValidString(in) {
			return false
		}
	}
	return !utf8.Valid(out)
}

// outValue parses a library output or reports why it is not acceptable JSON.
func outValue(r impl.R) (*rj.Value, string) {
	if r.Panic != "" {
		return nil, "panic: " + r.Panic
	}
	if r.Err != "" {
		return nil, "error: " + r.Err
	}
	v, err := rj.Parse(r.Out)
	if err != nil {
		return nil, fmt.Sprintf("output %q is not well-formed JSON: %v", r.Out, err)
	}
	return v, ""
}

func panicKey(r impl.R) string { return "panic:" + impl.PanicSite(r.Panic) }

// ---- C02 / C05 / C15 (merge part): every edge D --P--> D' ----

type mergeCfg struct {
	ordered  bool // C05: order clause
	variants bool // also feed spelling variants of the patch / document
}

// checkEdge judges MergePatch(d, p) against the reference.
func (m *mergeRun) checkEdge(d, p *rj.Value, dt, pt string, cfg mergeCfg) {
	want := r73.Merge(d, p)
	r := m.MergePatch(dt, pt)
	got, why := outValue(r)
	if why != "" {
		key := "merge-fails"
		if r.Panic != "" {
			key = panicKey(r)
		}
		m.viol("merge-fails", key, fmt.Sprintf("MergePatch(%s, %s): reference %s, library %s", dt, pt, rj.Text(want), why), "MergePatch", dt, pt)
		return
	}
	m.ctx.AddState(rj.Canon(want))
	if !rj.Equal(got, want) {
		shape := "other"
		if hasNullMemberInArray(p) {
			shape = "null-member-inside-array-of-patch"
		}
		m.viol("wrong-merge", "wrong-merge:"+shape, fmt.Sprintf("MergePatch(%s, %s): reference %s, library %s", dt, pt, rj.Text(want), r.Out), "MergePatch", dt, pt)
		return
	}
	if cfg.ordered {
		if why := mergeOrderOK(d, p, got); why != "" {
			m.viol("merge-order", "merge-order", fmt.Sprintf("MergePatch(%s, %s) = %s: %s", dt, pt, r.Out, why), "MergePatch", dt, pt)
		}
	}
}

func hasNullMemberInArray(v *rj.Value) bool {
	switch v.K {
	case rj.Arr:
		for _, e := range v.A {
			if rj.HasNullMember(e) || hasNullMemberInArray(e) {
				return true
			}
		}
	case rj.Obj:
		for _, mm := range v.O {
			if hasNullMemberInArray(mm.V) {
				return true
			}
		}
	}
	return false
}

// mergeOrderOK: surviving members in document order, ahead of the new ones
// (recursively where both sides are objects).
func mergeOrderOK(d, p, out *rj.Value) string {
	if d.K != rj.Obj || p.K != rj.Obj || out.K != rj.Obj {
		return ""
	}
	// survivors of d, in d's order
	var surv []string
	for _, mm := range d.O {
		if _, ok := out.Get(mm.Name); ok {
			if pv, inP := p.Get(mm.Name); inP && pv.K == rj.Null {
				continue
			}
			surv = append(surv, mm.Name)
		}
	}
	for i, name := range surv {
		if i >= len(out.O) || out.O[i].Name != name {
			return fmt.Sprintf("surviving members %v are not the leading members, in document order", surv)
		}
	}
	for _, mm := range out.O {
		dv, okd := d.Get(mm.Name)
		pv, okp := p.Get(mm.Name)
		if okd && okp {
			if why := mergeOrderOK(dv, pv, mm.V); why != "" {
				return why
			}
		}
	}
	return ""
}

func runMergeEdges(ctx *core.Ctx, id string, legacy bool, docs, patches []*rj.Value, cfg mergeCfg) {
	m0 := &mergeRun{id: id, legacy: legacy, ctx: ctx}
	var ds []*rj.Value
	for _, d := range docs {
		if d.K != rj.Null {
			ds = append(ds, d)
		}
	}
	edges := ctx.Counter("merge_edges")
	ctx.Parallel(len(ds), func(w *core.Worker, i int) {
		m := *m0
		m.w = w
		d := ds[i]
		dts := []string{txt(d)}
		if cfg.variants {
			dts = variants(d)
		}
		ctx.AddState(rj.Canon(d))
		for _, p := range patches {
			if legacy && p.K != rj.Obj && p.K != rj.Arr {
				continue // legacy domain: object or array patches
			}
			pts := []string{txt(p)}
			if cfg.variants {
				pts = variants(p)
			}
			for k, dt := range dts {
				for l, pt := range pts {
					if k > 0 && l > 0 {
						continue // one side varied at a time
					}
					m.checkEdge(d, p, dt, pt, cfg)
					atomic.AddInt64(edges, 1)
				}
			}
		}
		if i < 3 {
			ctx.Sample(map[string]string{"MergePatch_doc": txt(d), "patch": txt(patches[(i*7+5)%len(patches)])}, 8)
		}
	})
}

// ---- C03: CreateMergePatch ----

func (m *mergeRun) checkCreate(a, b *rj.Value, at, bt string, numericDomain bool) {
	r := m.Create(at, bt)
	bothObj := a.K == rj.Obj && b.K == rj.Obj
	bothObjArr := isObjArray(a) && isObjArray(b) && len(a.A) == len(b.A)
	if !bothObj && !bothObjArr {
		if a.K == rj.Null || b.K == rj.Null || (isObjOrNullArray(a) && isObjOrNullArray(b) && len(a.A) == len(b.A)) {
			// a null root - and likewise a null element of a root array - is read as an empty object: outside the stated domain
			m.ctx.Count("create_null_root_dontcare", 1)
			if r.Panic != "" {
				m.ctx.Count("create_null_root_panic", 1)
			}
			return
		}
		if r.Panic != "" {
			m.viol("create-panics", panicKey(r), fmt.Sprintf("CreateMergePatch(%s, %s) panics: %s", at, bt, r.Panic), "CreateMergePatch", at, bt)
		} else if r.Err == "" {
			m.viol("create-accepts-wrong-roots", "create-accepts-wrong-roots:"+a.K.String()+"/"+b.K.String(), fmt.Sprintf("CreateMergePatch(%s, %s) = %s, expected an error", at, bt, r.Out), "CreateMergePatch", at, bt)
		}
		m.ctx.Count("create_rejections_checked", 1)
		return
	}
	p, why := outValue(r)
	if why != "" {
		key := "create-fails"
		if r.Panic != "" {
			key = panicKey(r)
		}
		m.viol("create-fails", key, fmt.Sprintf("CreateMergePatch(%s, %s): %s", at, bt, why), "CreateMergePatch", at, bt)
		return
	}
	pairs := [][3]*rj.Value{{a, b, p}}
	if bothObjArr {
		if p.K != rj.Arr || len(p.A) != len(a.A) {
			m.viol("create-array-shape", "create-array-shape", fmt.Sprintf("CreateMergePatch(%s, %s) = %s: not an array of %d patches", at, bt, r.Out, len(a.A)), "CreateMergePatch", at, bt)
			return
		}
		pairs = nil
		for i := range a.A {
			pairs = append(pairs, [3]*rj.Value{a.A[i], b.A[i], p.A[i]})
		}
	}
	for _, t := range pairs {
		A, B, P := t[0], t[1], t[2]
		if P.K != rj.Obj {
			m.viol("create-not-object", "create-not-object", fmt.Sprintf("CreateMergePatch(%s, %s) = %s", at, bt, r.Out), "CreateMergePatch", at, bt)
			return
		}
		if (len(P.O) == 0) != rj.Equal(A, B) {
			m.viol("create-empty-iff-equal", "create-empty-iff-equal", fmt.Sprintf("CreateMergePatch(%s, %s) = %s but A==B is %v", at, bt, r.Out, rj.Equal(A, B)), "CreateMergePatch", at, bt)
			return
		}
		if why := r73.MinimalDiff(A, B, P, ""); why != "" {
			m.viol("create-not-minimal", "create-not-minimal", fmt.Sprintf("CreateMergePatch(%s, %s) = %s: %s", at, bt, r.Out, why), "CreateMergePatch", at, bt)
			return
		}
		// number literals of P occur verbatim in B (implied by MinimalDiff's literal equality)
		if !rj.HasNullMember(B) {
			if got := r73.Merge(A, P); !rj.Equal(got, B) {
				m.viol("create-roundtrip-rfc", "create-roundtrip-rfc", fmt.Sprintf("A=%s B=%s P=%s: RFC MergePatch(A,P) = %s", rj.Text(A), rj.Text(B), rj.Text(P), rj.Text(got)), "CreateMergePatch", at, bt)
				return
			}
			r2 := m.MergePatch(txt(A), txt(P))
			got, why := outValue(r2)
			if why != "" || !rj.Equal(got, B) {
				m.viol("create-roundtrip-lib", "create-roundtrip-lib", fmt.Sprintf("A=%s B=%s P=%s: library MergePatch(A,P) = %s %s", rj.Text(A), rj.Text(B), rj.Text(P), r2.Out, why), "MergePatch", txt(A), txt(P))
				return
			}
			m.ctx.Count("create_roundtrips", 1)
		}
	}
}

func isObjOrNullArray(v *rj.Value) bool {
	if v.K != rj.Arr {
		return false
	}
	for _, e := range v.A {
		if e.K != rj.Obj && e.K != rj.Null {
			return false
		}
	}
	return true
}

func isObjArray(v *rj.Value) bool {
	if v.K != rj.Arr {
		return false
	}
	for _, e := range v.A {
		if e.K != rj.Obj {
			return false
		}
	}
	return true
}

func runCreatePairs(ctx *core.Ctx, id string, legacy bool, as, bs []*rj.Value) {
	m0 := &mergeRun{id: id, legacy: legacy, ctx: ctx}
	n := ctx.Counter("create_pairs")
	ctx.Parallel(len(as), func(w *core.Worker, i int) {
		m := *m0
		m.w = w
		a := as[i]
		at := txt(a)
		ctx.AddState(rj.Canon(a))
		for _, b := range bs {
			m.checkCreate(a, b, at, txt(b), legacy)
			atomic.AddInt64(n, 1)
		}
		if i < 3 {
			ctx.Sample(map[string]string{"CreateMergePatch_A": at, "B": txt(bs[(i*11+3)%len(bs)])}, 8)
		}
	})
}

// ---- C06: Equal ----

func runEqualPairs(ctx *core.Ctx, id string, legacy bool, vs []*rj.Value, withVariants bool) {
	m0 := &mergeRun{id: id, legacy: legacy, ctx: ctx}
	n := ctx.Counter("equal_pairs")
	nt := ctx.Counter("equal_true")
	ctx.Parallel(len(vs), func(w *core.Worker, i int) {
		m := *m0
		m.w = w
		a := vs[i]
		ctx.AddState(rj.Canon(a))
		avs := []string{txt(a)}
		if withVariants {
			avs = variantsEsc(a, !legacy)
		}
		for _, b := range vs {
			want := rj.Equal(a, b)
			if !want && rj.EqualNumeric(a, b) {
				m.ctx.Count("equal_numeric_dontcare", 1)
				continue
			}
			bvs := []string{txt(b)}
			if withVariants && want {
				bvs = variantsEsc(b, !legacy)
			}
			for _, at := range avs {
				for _, bt := range bvs {
					r := m.Equal(at, bt) // every spelling against every spelling
					atomic.AddInt64(n, 1)
					if r.Panic != "" {
						m.viol("equal-panics", panicKey(r), fmt.Sprintf("Equal(%s, %s) panics: %s", at, bt, r.Panic), "Equal", at, bt)
						continue
					}
					if r.Bool {
						atomic.AddInt64(nt, 1)
					}
					if r.Bool != want {
						m.viol("equal-wrong", fmt.Sprintf("equal-wrong:%v:%s/%s", want, a.K, b.K), fmt.Sprintf("Equal(%s, %s) = %v, structural equality is %v", at, bt, r.Bool, want), "Equal", at, bt)
					}
				}
			}
		}
		if i < 3 {
			ctx.Sample(map[string]string{"Equal_a": txt(a), "b": txt(vs[(i*5+1)%len(vs)])}, 8)
		}
	})
}

// runEqualEscapes: every JSON string escape, in every spelling, at the root, in an
// array, as a member value and as a member name: all spellings of one string are
// equal (both argument orders), spellings of different strings are not.
func runEqualEscapes(ctx *core.Ctx, id string) {
	groups := [][]string{
		{`"a/b"`, `"a\/b"`, `"a\u002fb"`, `"a\u002Fb"`},
		{`"a\\/b"`, `"a\u005c/b"`, `"a\\\/b"`},
		{`"q\"\\"`, `"q\u0022\u005c"`},
		{`"\b\f\n\r\t"`, `"\u0008\u000c\u000a\u000d\u0009"`, `"\u0008\u000C\n\u000D\t"`},
		{"\"\u00e9\"", `"\u00e9"`, `"\u00E9"`},
		{"\"\U0001F600\"", `"\ud83d\ude00"`, `"\uD83D\uDE00"`},
		{`"<>&"`, `"\u003c\u003e\u0026"`, `"\u003C>&"`},
		{`"/"`, `"\/"`, `"\u002f"`},
		{`"u002f"`, `"\u0075002f"`},
		// UTF-8 length boundaries, raw and escaped
		{"\"\u007f\"", `"\u007f"`, `"\u007F"`},
		{"\"\u0080\"", `"\u0080"`},
		{"\"\u07ff\"", `"\u07ff"`, `"\u07FF"`},
		{"\"\u0800\"", `"\u0800"`},
		{"\"\uffff\"", `"\uffff"`},
		{"\"\U00010000\"", `"\ud800\udc00"`},
		{"\"\U0010FFFF\"", `"\udbff\udfff"`},
		{"\"\u2028\"", `"\u2028"`},
		{"\"\u2068\"", `"\u2068"`},
		// lone surrogate escapes read as U+FFFD, one per escape
		{`"\udc00"`, `"\ufffd"`, `"\ud800"`, "\"\ufffd\""},
		{`"\udc00\udc00"`, `"\ufffd\ufffd"`, `"\ud800\ud800"`, `"\udc00\ud800"`, "\"\ufffd\ufffd\""},
		{`"\ud800\udc00\udc00"`, "\"\U00010000\ufffd\""},
		{`"\udc00\ud800\udc00"`, "\"\ufffd\U00010000\""},
	}
	ctxs := []func(string) string{
		func(x string) string { return x },
		func(x string) string { return "[" + x + "]" },
		func(x string) string { return `{"k":` + x + `}` },
		func(x string) string { return "{" + x + ":1}" },
		func(x string) string { return `[{"m":[` + x + `,null]}]` },
	}
	m := &mergeRun{id: id, ctx: ctx}
	n := ctx.Counter("equal_escape_pairs")
	for _, wrap := range ctxs {
		for gi, g := range groups {
			for _, a := range g {
				for gj, h := range groups {
					for _, b := range h {
						at, bt := wrap(a), wrap(b)
						av, err1 := rj.Parse([]byte(at))
						bv, err2 := rj.Parse([]byte(bt))
						if err1 != nil || err2 != nil {
							panic("harness: bad escape text " + at + " / " + bt)
						}
						want := rj.Equal(av, bv)
						if want != (gi == gj) {
							panic("harness: escape groups are not disjoint: " + at + " / " + bt)
						}
						r := m.Equal(at, bt)
						atomic.AddInt64(n, 1)
						if r.Panic != "" {
							m.viol("equal-panics", panicKey(r), fmt.Sprintf("Equal(%s, %s) panics: %s", at, bt, r.Panic), "Equal", at, bt)
						} else if r.Bool != want {
							m.viol("equal-wrong", fmt.Sprintf("equal-wrong:%v:escapes", want), fmt.Sprintf("Equal(%s, %s) = %v, structural equality (strings compared after unescaping) is %v", at, bt, r.Bool, want), "Equal", at, bt)
						}
					}
				}
			}
		}
	}
}

// wideObjects: all objects over three names with values from {absent, null, 1,
// {"q":null}} - adjacent nulls, nulls followed by members that need pruning.
func wideObjects() []*rj.Value {
	return objectsOver([]string{"x", "y", "z"}, parseAll([]string{`null`, `1`, `{"q":null}`}))
}

// pointerLookalikeObjects: all objects over four names that look like JSON Pointer escapes of each
// other ("a/b" / "a~1b", "m~n" / "m~0n") with values absent / 1 / null (merge functions must treat
// names literally).
func pointerLookalikeObjects() []*rj.Value {
	return objectsOver([]string{"a/b", "a~1b", "m~n", "m~0n"}, parseAll([]string{`1`, `null`}))
}

// ---- C07: MergeMergePatches composes ----

func runCompose(ctx *core.Ctx, id string, legacy bool, docs, p1s, p2s []*rj.Value) {
	m0 := &mergeRun{id: id, legacy: legacy, ctx: ctx}
	ntri := ctx.Counter("compose_triples")
	nexcl := ctx.Counter("compose_pairs_excluded_by_compatibility")
	npairs := ctx.Counter("compose_pairs")
	ctx.Parallel(len(p1s), func(w *core.Worker, i int) {
		m := *m0
		m.w = w
		p1 := p1s[i]
		p1t := txt(p1)
		for _, p2 := range p2s {
			p2t := txt(p2)
			if legacy && p2.K != rj.Obj && p2.K != rj.Arr {
				continue
			}
			if !r73.Compatible(p1, p2) {
				atomic.AddInt64(nexcl, 1)
				continue
			}
			atomic.AddInt64(npairs, 1)
			r := m.MergeMerge(p1t, p2t)
			mm, why := outValue(r)
			if why != "" {
				key := "compose-fails"
				if r.Panic != "" {
					key = panicKey(r)
				}
				m.viol("compose-fails", key, fmt.Sprintf("MergeMergePatches(%s, %s): %s", p1t, p2t, why), "MergeMergePatches", p1t, p2t)
				continue
			}
			if p2.K != rj.Obj {
				shape := "other"
				if hasNullMemberInArray(p2) {
					shape = "null-member-inside-array-of-patch"
				}
				if !rj.Equal(mm, p2) {
					m.viol("compose-nonobject-p2", "compose-nonobject-p2:"+shape, fmt.Sprintf("MergeMergePatches(%s, %s) = %s, expected P2", p1t, p2t, r.Out), "MergeMergePatches", p1t, p2t)
				}
				continue
			}
			for _, d := range docs {
				if d.K == rj.Null {
					continue
				}
				atomic.AddInt64(ntri, 1)
				want := r73.Merge(r73.Merge(d, p1), p2)
				got := r73.Merge(d, mm)
				if !rj.Equal(got, want) {
					shape := "other"
					if hasNullMemberInArray(p1) || hasNullMemberInArray(p2) {
						shape = "null-member-inside-array-of-patch"
					}
					m.viol("compose-law", "compose-law:"+shape, fmt.Sprintf("D=%s P1=%s P2=%s: combined patch %s gives %s, applying P1 then P2 gives %s", txt(d), p1t, p2t, r.Out, rj.Text(got), rj.Text(want)), "MergeMergePatches", p1t, p2t)
					break
				}
				ctx.AddState(rj.Canon(want))
			}
		}
		if i < 3 {
			ctx.Sample(map[string]string{"MergeMergePatches_p1": p1t, "p2": txt(p2s[(i*13+7)%len(p2s)]), "applied_to": txt(docs[i%len(docs)])}, 8)
		}
	})
	// the same law through the library's own MergePatch, on a sub-family
	sub := p1s
	if len(sub) > 60 {
		sub = sub[:60]
	}
	ctx.Parallel(len(sub), func(w *core.Worker, i int) {
		m := *m0
		m.w = w
		p1 := sub[i]
		for _, p2 := range sub {
			if !r73.Compatible(p1, p2) || hasNullMemberInArray(p1) || hasNullMemberInArray(p2) {
				continue
			}
			r := m.MergeMerge(txt(p1), txt(p2))
			if r.Err != "" || r.Panic != "" {
				continue
			}
			for _, d := range docs {
				if d.K == rj.Null {
					continue
				}
				s1 := m.MergePatch(txt(d), txt(p1))
				if s1.Err != "" || s1.Panic != "" {
					continue
				}
				s2 := m.MergePatch(string(s1.Out), txt(p2))
				one := m.MergePatch(txt(d), string(r.Out))
				v2, w2 := outValue(s2)
				v1, w1 := outValue(one)
				m.ctx.Count("compose_triples_via_library", 1)
				if w1 != "" || w2 != "" || !rj.Equal(v1, v2) {
					m.viol("compose-law-lib", "compose-law-lib", fmt.Sprintf("D=%s P1=%s P2=%s: MergePatch(D, combined)=%s %s; MergePatch(MergePatch(D,P1),P2)=%s %s", txt(d), txt(p1), txt(p2), one.Out, w1, s2.Out, w2), "MergeMergePatches", txt(p1), txt(p2))
					break
				}
			}
		}
	})
}

func finishMerge(ctx *core.Ctx) {
	ctx.Rep.Validated = atomic.LoadInt64(&nExec)
	ctx.Rep.Evals = ctx.Rep.Validated
	ctx.Rep.Trans = ctx.Rep.Validated
	ctx.Rep.Nontrivial = ctx.NStates()
}

func registerMerge(id string, run func(ctx *core.Ctx, tier string), replayLegacy bool) {
	checks[id] = &check{Engine: "mergex", Run: func(ctx *core.Ctx, tier string) { run(ctx, tier); finishMerge(ctx) },
		Replay: func(ctx *core.Ctx, raw json.RawMessage) { mergeReplay(ctx, id, raw) },
		Budget: map[string]time.Duration{"quick": 150 * time.Second, "thorough": 25 * time.Minute}}
}

// mergeReplay re-judges one recorded call.
func mergeReplay(ctx *core.Ctx, id string, raw json.RawMessage) {
	if bytes.Contains(raw, []byte(`"buffer_reuse"`)) {
		runBufferReuse(ctx, id) // the whole phase: a history is three calls on one buffer
		return
	}
	var c MergeCase
	if err := json.Unmarshal(raw, &c); err != nil {
		panic(err)
	}
	if strings.HasPrefix(c.Func, "codec") {
		m := &mergeRun{id: id, ctx: ctx}
		m.judgeCodec([]byte(c.Args[0]))
		return
	}
	m := &mergeRun{id: id, legacy: c.Lib == "v4", ctx: ctx}
	parse := func(s string) *rj.Value {
		v, err := rj.Parse([]byte(s))
		if err != nil {
			return nil
		}
		return v
	}
	a, b := parse(c.Args[0]), parse(c.Args[1])
	if a == nil || b == nil {
		bytexReplayCall(ctx, id, c)
		return
	}
	if c.Func == "Equal" && (rj.HasDup(a) || rj.HasDup(b)) {
		runEqualLaws(ctx, id) // repeated member names: only the relation laws apply
		return
	}
	switch c.Func {
	case "MergePatch":
		m.checkEdge(a, b, c.Args[0], c.Args[1], mergeCfg{ordered: id == "C05"})
	case "CreateMergePatch":
		m.checkCreate(a, b, c.Args[0], c.Args[1], m.legacy)
	case "Equal":
		r := m.Equal(c.Args[0], c.Args[1])
		want := rj.Equal(a, b)
		if r.Panic != "" {
			m.viol("equal-panics", panicKey(r), r.Panic, "Equal", c.Args...)
		} else if r.Bool != want {
			m.viol("equal-wrong", fmt.Sprintf("equal-wrong:%v:%s/%s", want, a.K, b.K), fmt.Sprintf("Equal = %v, structural equality is %v", r.Bool, want), "Equal", c.Args...)
		}
	case "MergeMergePatches":
		docs := famV1()
		runCompose(ctx, id, m.legacy, docs, []*rj.Value{a}, []*rj.Value{b})
	}
}

func init() {
	checks["famsizes"] = &check{Engine: "mergex", Run: func(ctx *core.Ctx, tier string) {
		fmt.Println("V1", len(famV1()), "V2", len(famV2()), "V3", len(famV3()), "V4", len(famV4()), "objs", len(onlyObjs(famV1())), len(onlyObjs(famV2())), len(onlyObjs(famV3())), len(onlyObjs(famV4())))
	}}
}

// runMergeOutputs (C15, merge part): outputs over awkward strings and names.
func runMergeOutputs(ctx *core.Ctx, tier string) {
	strs := []string{"\"a\u007fb\"", `"\u007f"`, `"<>&"`, "\"  \"", `"\"\\\n"`, `"\u001f"`, "\"\U0001F600\"", `"😀"`, `"\ud800"`, `"é"`, `"\/"`}
	var vals []*rj.Value
	for _, s := range strs {
		v := rj.MustParse(s)
		vals = append(vals, v)
		// as member value, as member name, inside an array
		vals = append(vals, rj.NewObj(rj.Member{Name: "a", V: rj.Clone(v)}), rj.NewObj(rj.Member{Name: v.S, NameLit: v.Lit, V: rj.NewNum("1")}),
			rj.NewArr(rj.Clone(v)), rj.NewObj(rj.Member{Name: v.S, NameLit: v.Lit, V: rj.NewObj(rj.Member{Name: "b", V: rj.Clone(v)})}),
			rj.NewObj(rj.Member{Name: v.S, NameLit: v.Lit, V: rj.NewNull()}))
	}
	vals = append(vals, parseAll([]string{`{}`, `{"a":1}`, `[]`})...)
	m0 := &mergeRun{id: "C15", ctx: ctx}
	ctx.Parallel(len(vals), func(w *core.Worker, i int) {
		m := *m0
		m.w = w
		a := vals[i]
		at := txt(a)
		for _, b := range vals {
			bt := txt(b)
			judge := func(fn string, r impl.R, want *rj.Value) {
				ctx.Count("merge_outputs_checked", 1)
				if r.Err != "" && r.Panic == "" {
					if want != nil {
						m.viol("merge-output", "merge-output:unexpected-error:"+fn, fmt.Sprintf("%s(%s, %s): %s", fn, at, bt, r.Err), fn, at, bt)
					}
					return
				}
				got, why := outValue(r)
				if why != "" {
					m.viol("merge-output", "merge-output:not-json:"+fn, fmt.Sprintf("%s(%s, %s): %s", fn, at, bt, why), fn, at, bt)
					return
				}
				if notUTF8(r.Out, at, bt) {
					m.viol("merge-output", "merge-output:not-utf8:"+fn, fmt.Sprintf("%s(%s, %s) = %q", fn, at, bt, r.Out), fn, at, bt)
				}
				if want != nil && !rj.Equal(got, want) {
					m.viol("merge-output", "merge-output:wrong-value:"+fn, fmt.Sprintf("%s(%s, %s) = %s, intended %s", fn, at, bt, r.Out, rj.Text(want)), fn, at, bt)
				}
			}
			if a.K != rj.Null {
				judge("MergePatch", m.MergePatch(at, bt), r73.Merge(a, b))
			}
			if a.K == rj.Obj && r73.Compatible(a, b) {
				r := m.MergeMerge(at, bt)
				if b.K != rj.Obj {
					judge("MergeMergePatches", r, b)
				} else {
					judge("MergeMergePatches", r, nil)
				}
			}
			if a.K == rj.Obj && b.K == rj.Obj {
				r := m.Create(at, bt)
				judge("CreateMergePatch", r, nil)
				if p, why := outValue(r); why == "" && !rj.HasNullMember(b) {
					if got := r73.Merge(a, p); !rj.Equal(got, b) {
						m.viol("merge-output", "merge-output:create-roundtrip", fmt.Sprintf("CreateMergePatch(%s, %s) = %s does not turn A into B", at, bt, r.Out), "CreateMergePatch", at, bt)
					}
				}
			}
		}
		ctx.AddState(rj.Canon(a))
	})
}

// runEqualLaws: the relation laws on texts for which no value oracle exists (objects with repeated
// member names, also spelled with escapes): Equal must still be reflexive, symmetric and transitive.
func runEqualLaws(ctx *core.Ctx, id string) {
	texts := []string{`{"a":1,"a":1}`, `{"a":1,"b":1}`, `{"a":2,"a":1}`, `{"a":1}`, `{"a":1,"a":2}`, `{"a":2}`, `{"a":1,"a":1}`, `{"a":2,"a":1}`, `{"b":1,"a":1}`,
		`{"a":1,"b":1,"b":2}`, `{"a":1,"b":2}`, `{"b":2,"a":1,"a":1}`, `{"a":1,"b":1,"c":1}`, `{"a":1,"a":1,"a":1}`, `{"a":null,"a":1}`, `{"a":1,"a":null}`, `{"a":null}`, `{}`,
		`{"o":{"a":1,"a":1}}`, `{"o":{"a":1,"b":1}}`, `{"o":{"a":2,"a":1}}`, `{"o":{"a":1}}`, `[{"a":2,"a":1}]`, `[{"a":1}]`, `[{"a":1,"b":1}]`, `[{"a":1,"a":1}]`,
		`{"a":{"x":1},"a":{"y":1}}`, `{"a":{"y":1}}`, `{"a":{"x":1,"y":1}}`, `{"a":[1],"a":[1,2]}`, `{"a":[1,2]}`}
	m0 := &mergeRun{id: id, ctx: ctx}
	n := len(texts)
	rel := make([][]bool, n)
	for i := range rel {
		rel[i] = make([]bool, n)
	}
	ctx.Parallel(n, func(w *core.Worker, i int) {
		m := *m0
		m.w = w
		for j := range texts {
			r := m.Equal(texts[i], texts[j])
			if r.Panic != "" {
				m.viol("equal-panics", panicKey(r), fmt.Sprintf("Equal(%s, %s) panics: %s", texts[i], texts[j], r.Panic), "Equal", texts[i], texts[j])
			}
			rel[i][j] = r.Bool
		}
	})
	m := *m0
	ctx.Count("equal_law_texts", int64(n))
	for i := 0; i < n; i++ {
		if !rel[i][i] {
			m.viol("equal-not-reflexive", "equal-not-reflexive", fmt.Sprintf("Equal(%s, %s) = false", texts[i], texts[i]), "Equal", texts[i], texts[i])
		}
		for j := 0; j < n; j++ {
			if rel[i][j] != rel[j][i] {
				m.viol("equal-not-symmetric", "equal-not-symmetric", fmt.Sprintf("Equal(%s, %s) = %v but Equal(%s, %s) = %v", texts[i], texts[j], rel[i][j], texts[j], texts[i], rel[j][i]), "Equal", texts[i], texts[j])
			}
			for k := 0; k < n; k++ {
				if rel[i][j] && rel[j][k] && !rel[i][k] {
					m.viol("equal-not-transitive", "equal-not-transitive", fmt.Sprintf("Equal(%s, %s) and Equal(%s, %s) but not Equal(%s, %s)", texts[i], texts[j], texts[j], texts[k], texts[i], texts[k]), "Equal", texts[i], texts[k])
				}
			}
		}
	}
}

// runEqualPadding: insignificant white space is unbounded - a compact text and the same text padded with N
// blanks (N = 0..130 and around the powers of two and of ten up to 100 000) in front, behind, after every
// structural character, or as deep indentation denote the same value; against a different value never.
func runEqualPadding(ctx *core.Ctx, id string) {
	bases := []string{`{"a":1,"b":[null]}`, `{"deep":{"deep":{"deep":{"deep":{"k":[1,{"x":"y z"},"s"],"n":null}}}},"t":true}`, `[1,"two",{"three":[3]}]`, `"s"`, `null`}
	others := []string{`{"a":1,"b":[0]}`, `{"deep":{"deep":{"deep":{"deep":{"k":[1,{"x":"y  z"},"s"],"n":null}}}},"t":true}`, `[1,"two",{"three":[4]}]`, `"s "`, `0`}
	sizes := sweepSizes(130, 256, 1000, 1024, 4096, 8192, 10000, 65536, 100000)
	m0 := &mergeRun{id: id, ctx: ctx}
	n := ctx.Counter("equal_padding_pairs")
	type unit struct {
		base, other string
		size        int
	}
	var units []unit
	for i := range bases {
		for _, s := range sizes {
			units = append(units, unit{bases[i], others[i], s})
		}
	}
	ctx.Parallel(len(units), func(w *core.Worker, i int) {
		m := *m0
		m.w = w
		u := units[i]
		pad := strings.Repeat(" ", u.size)
		crlf := strings.Repeat("\r\n", u.size/2+1)
		// after every structural character outside strings
		var sb strings.Builder
		per := strings.Repeat(" ", u.size/8+1)
		inStr, esc := false, false
		for j := 0; j < len(u.base); j++ {
			c := u.base[j]
			sb.WriteByte(c)
			if inStr {
				if esc {
					esc = false
				} else if c == '\\' {
					esc = true
				} else if c == '"' {
					inStr = false
				}
				continue
			}
			switch c {
			case '"':
				inStr = true
			case '{', '[', ',', ':':
				sb.WriteString(per)
			}
		}
		for _, padded := range []string{pad + u.base, u.base + pad, u.base + crlf, pad + u.base + crlf, sb.String()} {
			for _, pr := range [][3]interface{}{{u.base, padded, true}, {padded, u.base, true}, {padded, padded, true}, {u.other, padded, false}, {padded, u.other, false}} {
				a, b, want := pr[0].(string), pr[1].(string), pr[2].(bool)
				r := m.Equal(a, b)
				atomic.AddInt64(n, 1)
				if r.Panic != "" {
					m.viol("equal-panics", panicKey(r), fmt.Sprintf("Equal on a text padded with %d blanks panics: %s", u.size, r.Panic), "Equal", a, b)
				} else if r.Bool != want {
					m.viol("equal-wrong", fmt.Sprintf("equal-wrong:%v:padding", want), fmt.Sprintf("Equal(%s, <the same value padded with about %d blanks: %d bytes>) = %v, structural equality is %v", trunc(a, 80), u.size, len(b), r.Bool, want), "Equal", a, b)
				}
			}
		}
	})
}
