//go:build shim

package main

import (
	"fmt"
	"reflect"
	"runtime"
	"sort"
	"strconv"
	"strings"
	"unsafe"
)

// Generic deep dumper: prints everything reachable from a value, private fields
// included, using only kind-specific reflect getters (which do not require
// exported fields). Pointer identities are replaced by first-visit numbers, so
// aliasing is part of the dump; map entries are sorted by their dumped key. It
// names no field of the library, so it survives added or renamed fields.
//
// Deliberately NOT printed: slice capacity and the elements between len and cap.
// Go code can observe those only by reslicing beyond len; if an edited tree does
// that and leaks stale data into a result, the per-call oracle (result equals the
// solo result) still sees it - only the state merge would be coarser.

type dumper struct {
	b     strings.Builder
	ptrs  map[unsafe.Pointer]int
	depth int
}

func newDumper() *dumper { return &dumper{ptrs: map[unsafe.Pointer]int{}} }

type ifaceWords struct{ tab, data unsafe.Pointer }

var protoType = reflect.TypeOf(0)

// rtypeString turns a *reflect.rtype data pointer back into a reflect.Type.
func rtypeString(p unsafe.Pointer) string {
	i := *(*ifaceWords)(unsafe.Pointer(&protoType))
	i.data = p
	t := *(*reflect.Type)(unsafe.Pointer(&i))
	return t.String()
}

func (d *dumper) val(v reflect.Value) {
	if d.depth > 200 {
		d.b.WriteString("<deep>")
		return
	}
	d.depth++
	defer func() { d.depth-- }()
	switch v.Kind() {
	case reflect.Invalid:
		d.b.WriteString("<invalid>")
	case reflect.Bool:
		d.b.WriteString(strconv.FormatBool(v.Bool()))
	case reflect.Int, reflect.Int8, reflect.Int16, reflect.Int32, reflect.Int64:
		d.b.WriteString(strconv.FormatInt(v.Int(), 10))
	case reflect.Uint, reflect.Uint8, reflect.Uint16, reflect.Uint32, reflect.Uint64, reflect.Uintptr:
		d.b.WriteString(strconv.FormatUint(v.Uint(), 10))
	case reflect.Float32, reflect.Float64:
		d.b.WriteString(strconv.FormatFloat(v.Float(), 'g', -1, 64))
	case reflect.Complex64, reflect.Complex128:
		d.b.WriteString(fmt.Sprint(v.Complex()))
	case reflect.String:
		d.b.WriteString(strconv.Quote(v.String()))
	case reflect.Func:
		if v.IsNil() {
			d.b.WriteString("func(nil)")
		} else {
			d.b.WriteString("func:" + funcName(v.Pointer()))
		}
	case reflect.Chan, reflect.UnsafePointer:
		if v.IsNil() {
			d.b.WriteString("nil")
		} else {
			d.b.WriteString(v.Type().String())
		}
	case reflect.Interface:
		if v.IsNil() {
			d.b.WriteString("iface(nil)")
			return
		}
		e := v.Elem()
		d.b.WriteString("iface<" + e.Type().String() + ">")
		d.val(e)
	case reflect.Ptr:
		if v.IsNil() {
			d.b.WriteString("nil")
			return
		}
		p := unsafe.Pointer(v.Pointer())
		if ts := v.Type().String(); ts == "*reflect.rtype" || ts == "*abi.Type" {
			d.b.WriteString("type:" + rtypeString(p))
			return
		}
		if id, ok := d.ptrs[p]; ok {
			d.b.WriteString("@" + strconv.Itoa(id))
			return
		}
		id := len(d.ptrs) + 1
		d.ptrs[p] = id
		d.b.WriteString("&" + strconv.Itoa(id) + ":")
		d.val(v.Elem())
	case reflect.Slice:
		if v.IsNil() {
			d.b.WriteString("slice(nil)")
			return
		}
		n := v.Len()
		// backing array identity (aliasing between slices)
		if v.Cap() > 0 {
			p := unsafe.Pointer(v.Pointer())
			id, ok := d.ptrs[p]
			if !ok {
				id = len(d.ptrs) + 1
				d.ptrs[p] = id
			}
			d.b.WriteString("#" + strconv.Itoa(id))
		}
		if v.Type().Elem().Kind() == reflect.Uint8 {
			bs := make([]byte, n)
			for i := 0; i < n; i++ {
				bs[i] = byte(v.Index(i).Uint())
			}
			d.b.WriteString("bytes" + strconv.Quote(string(bs)))
			return
		}
		d.b.WriteString("[" + strconv.Itoa(n) + ":")
		for i := 0; i < n; i++ {
			if i > 0 {
				d.b.WriteByte(',')
			}
			d.val(v.Index(i))
		}
		d.b.WriteByte(']')
	case reflect.Array:
		n := v.Len()
		// compress arrays of scalars (lookup tables)
		d.b.WriteString("arr[" + strconv.Itoa(n) + ":")
		for i := 0; i < n; i++ {
			if i > 0 {
				d.b.WriteByte(',')
			}
			d.val(v.Index(i))
		}
		d.b.WriteByte(']')
	case reflect.Map:
		if v.IsNil() {
			d.b.WriteString("map(nil)")
			return
		}
		// sort entries by the key's dump (computed with a scratch pointer table so
		// that numbering does not depend on iteration order), then dump in that order
		type kv struct {
			ks   string
			k, v reflect.Value
		}
		var es []kv
		it := v.MapRange()
		for it.Next() {
			var ks string
			k := it.Key()
			kk := k
			if kk.Kind() == reflect.Interface && !kk.IsNil() {
				kk = kk.Elem()
			}
			switch {
			case kk.Kind() == reflect.String:
				ks = "s" + kk.String()
			case kk.Kind() == reflect.Ptr && !kk.IsNil() && (kk.Type().String() == "*reflect.rtype" || kk.Type().String() == "*abi.Type"):
				ks = "t" + rtypeString(unsafe.Pointer(kk.Pointer()))
			case kk.Kind() >= reflect.Int && kk.Kind() <= reflect.Int64:
				ks = fmt.Sprintf("i%020d", kk.Int())
			default:
				scratch := map[unsafe.Pointer]int{}
				for p, id := range d.ptrs {
					scratch[p] = id
				}
				kd := &dumper{ptrs: scratch, depth: d.depth}
				kd.val(k)
				ks = "x" + kd.b.String()
			}
			es = append(es, kv{ks, k, it.Value()})
		}
		sort.Slice(es, func(i, j int) bool { return es[i].ks < es[j].ks })
		d.b.WriteString("map{")
		for i, e := range es {
			if i > 0 {
				d.b.WriteByte(',')
			}
			d.val(e.k)
			d.b.WriteByte(':')
			d.val(e.v)
		}
		d.b.WriteByte('}')
	case reflect.Struct:
		t := v.Type()
		d.b.WriteString(t.String() + "{")
		for i := 0; i < v.NumField(); i++ {
			if i > 0 {
				d.b.WriteByte(',')
			}
			d.b.WriteString(t.Field(i).Name + "=")
			d.val(v.Field(i))
		}
		d.b.WriteByte('}')
	default:
		d.b.WriteString("<" + v.Kind().String() + ">")
	}
}

var funcNames = map[uintptr]string{}

func funcName(pc uintptr) string {
	if n, ok := funcNames[pc]; ok {
		return n
	}
	n := "?"
	if f := runtime.FuncForPC(pc); f != nil {
		n = f.Name()
	}
	funcNames[pc] = n
	return n
}

// pointerFree: values of this type hold no reference the library could mutate
// through (strings are immutable), so their dump is a function of their memory.
func pointerFree(t reflect.Type) bool {
	switch t.Kind() {
	case reflect.Bool, reflect.Int, reflect.Int8, reflect.Int16, reflect.Int32, reflect.Int64,
		reflect.Uint, reflect.Uint8, reflect.Uint16, reflect.Uint32, reflect.Uint64, reflect.Uintptr,
		reflect.Float32, reflect.Float64, reflect.Complex64, reflect.Complex128:
		return true
	case reflect.Array:
		return pointerFree(t.Elem())
	case reflect.Struct:
		for i := 0; i < t.NumField(); i++ {
			if !pointerFree(t.Field(i).Type) {
				return false
			}
		}
		return true
	}
	return false
}

type flatCache struct {
	mem  string
	dump string
}

var flatDumps = map[unsafe.Pointer]*flatCache{}

// dumpAll dumps a name->pointer map (package-level variables) in name order.
func dumpAll(groups ...map[string]interface{}) string {
	d := newDumper()
	for gi, g := range groups {
		names := make([]string, 0, len(g))
		for n := range g {
			names = append(names, n)
		}
		sort.Strings(names)
		for _, n := range names {
			d.b.WriteString(strconv.Itoa(gi) + "." + n + "=")
			pv := reflect.ValueOf(g[n])
			if t := pv.Type().Elem(); pointerFree(t) && t.Size() > 16 {
				// a flat table: re-dump only when its memory changed
				p := unsafe.Pointer(pv.Pointer())
				mem := string(unsafe.Slice((*byte)(p), t.Size()))
				fc := flatDumps[p]
				if fc == nil || fc.mem != mem {
					fd := newDumper()
					fd.val(pv.Elem())
					fc = &flatCache{mem: mem, dump: fd.b.String()}
					flatDumps[p] = fc
				}
				d.b.WriteString(fc.dump)
			} else {
				d.val(pv.Elem())
			}
			d.b.WriteByte('\n')
		}
	}
	return d.b.String()
}

func dumpValue(x interface{}) string {
	d := newDumper()
	d.val(reflect.ValueOf(x))
	return d.b.String()
}
