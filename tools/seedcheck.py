#!/usr/bin/env python3
"""seedcheck.py <diff> <demo_test.go> [--props C01,C05] [--tier quick] [--skip-confirm]

Confirms a seeded change in a scratch worktree (suite passes with it; demo fails with it and
passes without), then applies it to /repo, runs the named checks, and undoes it straight away.
Prints one JSON line with everything it ran and saw."""
import json, os, re, subprocess, sys, tempfile, shutil, argparse, time

ENV = dict(os.environ, GOFLAGS="-mod=mod", GOPROXY="off", GOSUMDB="off", GOTOOLCHAIN="local")
LEGACY_MOD = "module github.com/evanphx/json-patch\n\ngo 1.18\n\nrequire github.com/jessevdk/go-flags v1.6.1\n\nrequire golang.org/x/sys v0.21.0 // indirect\n"

def sh(cmd, cwd=None, timeout=1800):
    p = subprocess.run(cmd, shell=True, cwd=cwd, env=ENV, stdout=subprocess.PIPE, stderr=subprocess.STDOUT, text=True, timeout=timeout)
    return p.returncode, p.stdout

def demo_place(wt, demo):
    """returns (dir, run command, cleanup files)"""
    src = open(demo).read()
    pkg = re.search(r'^package\s+(\w+)', src, re.M).group(1)
    legacy = '"github.com/evanphx/json-patch"' in src and '"github.com/evanphx/json-patch/v5"' not in src
    tests = re.findall(r'^func (Test\w+)\(', src, re.M)
    runpat = "'^(" + '|'.join(tests) + ")$'" if tests else '.'
    if pkg == 'main' and demo.endswith('_test.go'):
        d = os.path.join(wt, 'cmd/json-patch' if legacy else 'v5/cmd/json-patch')
        shutil.copy(demo, os.path.join(d, 'zz_seed_demo_test.go'))
        return d, 'go test -vet=off -count=1 -run ' + runpat + ' .', legacy
    if pkg in ('json', 'json_test'):
        d = os.path.join(wt, 'v5/internal/json')
    elif pkg == 'main' and not demo.endswith('_test.go'):
        d = os.path.join(wt, 'v5/zzdemo' if not legacy else 'zzdemo')
        os.makedirs(d, exist_ok=True)
        shutil.copy(demo, os.path.join(d, 'main.go'))
        return d, 'go run .', legacy
    elif legacy or (pkg == 'jsonpatch' and 'legacy' in os.path.basename(demo)):
        d = wt
        legacy = True
    else:
        d = os.path.join(wt, 'v5')
    name = 'zz_seed_demo_test.go'
    shutil.copy(demo, os.path.join(d, name))
    return d, 'go test -vet=off -count=1 -run ' + runpat + ' ' + ('-race ' if 'race' in os.path.basename(demo) or '// needs -race' in src else '') + '.', legacy

def main():
    ap = argparse.ArgumentParser()
    ap.add_argument('diff'); ap.add_argument('demo')
    ap.add_argument('--props', default=''); ap.add_argument('--tier', default='quick')
    ap.add_argument('--skip-confirm', action='store_true')
    ap.add_argument('--demo-cmd', default='')
    a = ap.parse_args()
    res = {'diff': a.diff, 'demo': a.demo, 'ran': []}
    if not a.skip_confirm:
        wt = tempfile.mkdtemp(prefix='sv-', dir='/tmp')
        os.rmdir(wt)
        rc, out = sh(f'git -C /repo worktree add --detach {wt} HEAD -q')
        assert rc == 0, out
        try:
            d, cmd, legacy = demo_place(wt, a.demo)
            if a.demo_cmd:
                cmd = a.demo_cmd
            if legacy or True:
                open(os.path.join(wt, 'go.mod'), 'w').write(LEGACY_MOD)
                shutil.copy(os.path.join(wt, 'v5/go.sum'), os.path.join(wt, 'go.sum'))
            rc0, out0 = sh(cmd, d)
            res['demo_clean_rc'] = rc0
            res['ran'].append(f'clean tree: (cd {os.path.relpath(d, wt) or "."} && {cmd}) -> rc={rc0}')
            rc, out = sh(f'git apply {a.diff}', wt)
            assert rc == 0, 'diff does not apply: ' + out
            rcs, outs = sh('go build ./... && go test -vet=off -count=1 ./...', os.path.join(wt, 'v5'))
            # the demo sits in the package dir: keep it out of the suite verdict by filtering its own failures
            res['suite_rc_with_change_incl_demo'] = rcs
            # run suite properly: move the demo away
            demo_file = os.path.join(d, 'zz_seed_demo_test.go')
            moved = None
            if os.path.exists(demo_file):
                moved = demo_file + '.off'
                os.rename(demo_file, moved)
            rcs, outs = sh('go build ./... && go test -vet=off -count=1 ./...', os.path.join(wt, 'v5'))
            res['suite_v5_rc_with_change'] = rcs
            res['ran'].append(f'with change: (cd v5 && go test -vet=off -count=1 ./...) -> rc={rcs}')
            rcl, outl = sh('go test -vet=off -count=1 .', wt)
            res['suite_legacy_rc_with_change'] = rcl
            res['ran'].append(f'with change: legacy root package tests (temporary go.mod) -> rc={rcl}')
            if rcs != 0:
                res['suite_out'] = outs[-1500:]
            if rcl != 0:
                res['suite_legacy_out'] = outl[-1500:]
            if moved:
                os.rename(moved, demo_file)
            rc1, out1 = sh(cmd, d)
            res['demo_changed_rc'] = rc1
            res['ran'].append(f'with change: demo -> rc={rc1}')
            res['demo_changed_tail'] = out1[-600:]
            if rc0 != 0:
                res['demo_clean_tail'] = out0[-800:]
        finally:
            sh(f'git -C /repo worktree remove --force {wt}')
        res['confirmed'] = (res.get('demo_clean_rc') == 0 and res.get('demo_changed_rc') != 0 and res.get('suite_v5_rc_with_change') == 0 and res.get('suite_legacy_rc_with_change') == 0)
    props = [p for p in a.props.split(',') if p]
    if props:
        # the checks are pointed at a scratch worktree carrying the change (VCHECK_REPO), so /repo is
        # never modified and several changes can be tried at once; evidence/replays go to a scratch dir
        wt = tempfile.mkdtemp(prefix='sr-', dir='/tmp')
        os.rmdir(wt)
        rc, out = sh(f'git -C /repo worktree add --detach {wt} HEAD -q')
        assert rc == 0, out
        outd = tempfile.mkdtemp(prefix='so-', dir='/tmp')
        try:
            rc, out = sh(f'git apply {a.diff}', wt)
            assert rc == 0, out
            res['checks'] = {}
            ENV['VCHECK_REPO'], ENV['VCHECK_OUT'] = wt, outd
            for p in props:
                t0 = time.time()
                rc, out = sh(f'/verif/bin/vcheck {p} --tier {a.tier}', '/verif', timeout=7200)
                lines = [l for l in out.splitlines() if l.startswith('VIOLATION') or l.startswith('  key=')]
                res['checks'][p] = {'rc': rc, 'violations': lines[:8], 'wall_s': round(time.time() - t0, 1), 'tail': out.splitlines()[-1:] }
                res['ran'].append(f'change applied to a scratch worktree of /repo (VCHECK_REPO): bin/vcheck {p} --tier {a.tier} -> rc={rc}')
        finally:
            sh(f'git -C /repo worktree remove --force {wt}')
            shutil.rmtree(outd, ignore_errors=True)
    print(json.dumps(res, indent=1))

main()
