#!/usr/bin/env python3
"""Regenerates /verif/MANIFEST.json from the table below (kept next to the checks so the
two cannot drift). Run after adding or changing a check."""
import json, subprocess, sys

T = "Trusted: the Go toolchain; the hand-written reference (refjson reader/PDA, ref6902, ref7396), kept small and cross-checked against each other and the RFC examples in the harness tests. "

CHECKS = {
 # id: (engine, design_ref, technique, level text, level note)
 "C01": ("seqx", "DESIGN.md §4 E1, §5 C01",
   "bounded-exhaustive enumeration of RFC 6902 operation sequences on the real code vs. a reference evaluator",
   "Every operation sequence up to the stated depth over an alphabet rebuilt from the current reference state (all resolvable pointers, near-misses, interior negative indices, 8 value shapes + an 80-byte value, 6 operations; from the second operation on also probes for stale internal state: the starting document's values and locations) is executed through DecodePatch+ApplyWithOptions on 15 curated documents with SupportNegativeIndices on and off and the package defaults set to the opposite, and compared with an independent RFC 6902/6901 evaluator through an independent literal-preserving JSON reader. Plus a mini depth-3 phase, a package-defaults phase through Apply and ApplyIndent, and a scale phase (40-member object, 600- and 260-element arrays, 14-level document). Exhaustive within the bound; nothing sampled.",
   T+"Bounds: depth 2 (+ a mini depth-3 phase) quick; thorough adds a depth-3 phase on 4 core documents with reduced 2nd/3rd alphabets (256 M sequences, 13 min); data outside the alphabets is covered only by the one-representative-per-branch argument (DESIGN section 7 shows where that failed and what was added). Size sweeps (DESIGN section 3): string / name / number-literal documents of every length 0..130 and around 256, 1024, 4096 bytes to depth 2; objects of n members and arrays of n elements around 8..256 to depth 3; a depth-4 micro phase on one document. Patch-length scripts (one step repeated 0..70, ~128, ~256 times, then each of ~18 probes) and products of a size and a position (sized documents as element 17 of an array member and nine levels down)."),
 "C02": ("mergex", "DESIGN.md §4 E2, §5 C02",
   "exhaustive enumeration of (document, merge patch) edges over value families vs. RFC 7396 pseudo-code",
   "All edges D x P over enumerated value families (every JSON value of bounded depth/width over a small name and scalar alphabet, incl. type changes at depth 3 and nulls inside arrays) are run through MergePatch and compared with the RFC 7396 pseudo-code on independent trees; documents and patches are also fed in reordered / whitespace / escaped spellings.",
   T+"Bounds: value families V1..V4 (names a,b,c; arrays <= 3 elements; depth <= 3). Built in the shim flavour: every call also runs under every rotation of each map iteration inside the library (12 range sites rewritten at build time); an outcome that depends on the order is a violation. Size sweeps (DESIGN section 3): clusters on string length (0..130, around 256..65536), member count and array length (0..70, around 128..1024) and nesting (1..70, around 100..1002): all ordered pairs inside each cluster; maps with more than 8 entries get rotations 1, 2, n/2, n-1 only."),
 "C03": ("mergex", "DESIGN.md §4 E2, §5 C03",
   "exhaustive enumeration of ordered pairs (A,B) with round-trip and minimality oracle",
   "CreateMergePatch is run on all ordered pairs of objects of the value family (plus numbers beyond float64 precision), pairs of arrays of objects, and all pairs of other roots; oracle: success, {} iff equal, every mentioned path differs, removed => null, values are B's literals, RFC and library round trip when B has no null member, rejection of wrong-shaped roots.",
   T+"Bounds: objects of V2 (quick) / V3 (thorough). Size sweeps (DESIGN section 3): the same clusters, all ordered pairs inside each; plus pairs of objects holding float64 neighbours (one unit in the last place apart)."),
 "C04": ("bytex+seqx", "DESIGN.md §4 E3 bytex(b), §5 C04",
   "exhaustive enumeration of all short byte strings into every []byte parameter, and of out-of-domain operation sequences under every option combination, on both packages; oracle: returns without panic",
   "Complements the other checks (each of which reports panics inside its own domain) with what they exclude: every string over a 16-symbol alphabet up to length 4/5 in every []byte parameter of both packages; all sequences of <= 2 operations containing an out-of-domain operation (empty tokens, non-canonical/overflowing indices, bad escapes, '' as destination, root replaced by null/scalar, test without value) under every combination of the four ApplyOptions booleans and three limits; 10000/10001-deep nesting; EnsurePathExistsOnAdd indices up to 10^4. A hang is a call not returning within a 30 s watchdog.",
   T+"'Never hangs' is decided as 'returns within the watchdog'. An unrecoverable crash of the harness process (stack overflow, out of memory) is reported by the driver as a failed run, not as silence. Size sweeps (DESIGN section 3): the string / width / length documents through Apply (sequences <= 2) and every cluster pair through all four merge functions, both packages."),
 "C05": ("seqx+mergex", "DESIGN.md §4 E1/E2, §5 C05",
   "C01's enumeration judged with ordered, literal-exact equality, plus all merge edges judged for member order",
   "The reference evaluator tracks member order exactly as the statement prescribes; every in-domain sequence (incl. the empty patch) must yield the same members in the same order with byte-identical number literals (documents carry 1.0, 1e400, -0, 23-digit integers). MergePatch edges: survivors lead in document order, literals untouched.",
   T+"Bounds as C01 / C02. Size sweeps as C01 (depth 2). Also every string of <= 4 tokens over {a, blank, <, escaped backslash, escaped quote, \\n, \\u00e9, raw two-byte character} as value / name / nested value under both escape settings; patch-length scripts (one step repeated 0..70, ~128, ~256 times, then a probe); products of a size and a position."),
 "C06": ("mergex+bytex", "DESIGN.md §4 E2/E3, §5 C06",
   "exhaustive enumeration of ordered pairs of values x spellings, and of all short byte strings, vs. reference structural equality",
   "Equal is compared with reference structural equality on all ordered pairs of the value family, each value also reordered, whitespace-padded and \\u-escaped (null roots, nulls in arrays, array vs null included); agreement with an equivalence relation on the whole set yields reflexivity/symmetry/transitivity there. Every string over 16 symbols up to length 4/5 against {itself, {}, [], {\"a\":1}, null}: malformed => false.",
   T+"Numerically equal but differently spelled numbers are outside the stated domain (DontCare). Size sweeps (DESIGN section 3): the same clusters in every spelling; float64 neighbours; on 31 texts with repeated member names (no value oracle) reflexivity, symmetry and transitivity are checked directly over all pairs and triples. Padding sweep: a value against itself padded with 0..100000 blanks in five ways."),
 "C07": ("mergex", "DESIGN.md §4 E2, §5 C07",
   "exhaustive enumeration of triples (D,P1,P2) restricted by the compatibility predicate; composition law through the reference merge and through the library's own",
   "For every pair of object patches of the family satisfying the stated compatibility condition (computed by the reference) MergeMergePatches is run once and the result applied, with the RFC reference, to every document of the document family: it must equal applying P1 then P2. The same law is checked through the library's MergePatch on a sub-family; non-object P2 must come back verbatim.",
   T+"Bounds: V2 objects (quick) / V3 objects (thorough) x ~60 documents. Size sweeps (DESIGN section 3): all compatible triples inside the clusters next to 32, 64, 128, 256 (thorough also 1024)."),
 "C08": ("seqx", "DESIGN.md §4 E1, §5 C08",
   "bounded-exhaustive enumeration of failing operation sequences under cause-changing option combinations; errors.Is/As class vs. reference cause; one-step extension invariance",
   "Every failing sequence up to depth 2 under 10 option combinations is judged: nil document, non-nil error, ErrTestFailed iff the reference cause is an unequal test, *AccumulatedCopySizeError iff the copy limit, ErrMissing for absent members / unreachable parents; each failing prefix is re-run with further operations appended and must give the identical outcome.",
   T+"Where a copy crosses the limit and its destination parent is also unreachable (a cause with a class of its own) either class is accepted; a bad destination index has no class in the statement, so there the limit error is demanded. On 8 documents with repeated member names (no value oracle) the library is compared with itself: after k removes of a member, remove / copy-from / move-from / replace must agree on whether it is there."),
 "C11": ("decodex", "DESIGN.md §4 decodex, §5 C11",
   "systematic enumeration of all single and pairwise member mutations of valid operations, plus all short byte strings, vs. an acceptance predicate transcribed from the statement",
   "About 12 000 patch texts (all single and all pairs - thorough: triples - of delete / retype / rename-by-case / escape / duplicate mutations on one valid operation per kind, in three positions; element- and root-type changes) and every 16-symbol string up to length 4/5 are fed to DecodePatch; accept/reject must equal the reference predicate; accepted patches have Kind/Path/From/ValueInterface compared with independently decoded members.",
   T+"Conflicting duplicate members and the text null are outside the stated domain. Size sweeps (DESIGN section 3): patches of every length 0..40 and around 64..1024 operations with a defective operation first, in the middle and in each of the last four places; texts padded to 4 KiB / 64 KiB / 1 MiB +-1; pointers and values of 63..4097 bytes."),
 "C12": ("seqx", "DESIGN.md §4 E1, §5 C12",
   "bounded-exhaustive enumeration of sequences containing copy operations x limits at, below and above every reference running total x EscapeHTML, in three configurations (v5 option, v5 package default, legacy global)",
   "The reference computes the running copied-bytes total after every copy (canonical compact spelling under the current escaping); each sequence is re-run under limits {1, T-1, T, T+1, 2^40} for every prefix total T (package-level configurations: every limit 0..N): *AccumulatedCopySizeError exactly at the first copy whose total exceeds the limit, never otherwise, nil document, 0 disables.",
   T+"A copied null may count 0 or 4 bytes (window = DontCare), as the statement allows."),
 "C13": ("seqx", "DESIGN.md §4 E1, §5 C13",
   "bounded-exhaustive enumeration with the option on; reference comparison plus differential oracle on the real code",
   "With the option on (negatives on/off) every sequence to depth 2/3 is judged against the reference and differentially: Apply(on, P) must equal Apply(off, P minus the removes the reference marks skipped) in bytes or in error.",
   T+"Bad index tokens, remove of '' and negative tokens with negatives off are outside the stated domain. Size sweeps (DESIGN section 3): objects of n members and arrays of n elements at 0..2 and around 8..128 to depth 3 (255..257, 1024 to depth 2) with an alphabet of skipped removes and a created-then-removed member."),
 "C14": ("seqx", "DESIGN.md §4 E1, §5 C14",
   "exhaustive enumeration of add paths of 1..L tokens over a token alphabet, followed by every further operation; reference ensure+add with ordered equality, path lookup, plain-add agreement",
   "Every add path of up to 3 (thorough 4) tokens over {a, b, 'a/b', 'm~n', 0, 1, 2} ('-' last) is applied with the option on to documents in which every prefix length already exists, followed by every operation of Sigma(D); oracle: reference result with ordered equality (frame condition), the value is found at the path, and equality with plain add wherever plain add succeeds.",
   T+"Null/scalar on the path, negative indices and '-' before the last token are outside the stated domain. Also member names that look numeric without being indices (Arabic-Indic, Devanagari, fullwidth digits, 1e2, 0x1, 1.0)."),
 "C15": ("seqx+mergex", "DESIGN.md §4 E1/E2, §5 C15",
   "bounded-exhaustive enumeration over documents/values with HTML, Unicode and control characters x EscapeHTML x indent strings; byte-level oracles and a test-deletion differential",
   "Every successful output (Apply under both escape settings; MergePatch, MergeMergePatches, CreateMergePatch) must be accepted by the independent reader, be UTF-8 given UTF-8 input and equal the reference value; escape on => none of the five characters raw; off => no escape not already spelled in the inputs; ApplyIndent equals the independently re-indented Apply output for 3 indents; deleting passing test operations leaves the bytes identical.",
   T+"Byte-identity clauses quantify over documents spelled as the encoder spells them. Size sweep: string documents of every length 0..130 and around 256..4096 to depth 2. New member names that need escaping (quote, backslash, control character, U+2028) are offered as targets; the ApplyIndent = re-indented Apply relation and well-formedness are also judged where the value oracle says DontCare (root replaced by null, repeated names); string token shapes as C05."),
 "C16": ("scanx+bytex", "DESIGN.md §4 E3, §5 C16",
   "reachability over the synchronous product of the real scanner automaton with a reference pushdown recogniser (all 256 bytes per state), plus exhaustive short strings into codec functions and entry points",
   "The library's private scanner is cloned and single-stepped (observation file injected by overlay) in lock-step with a reference recogniser; BFS over the product with stacks to depth 4 compares end-of-input acceptance in every reachable state: language equality for inputs of every length at that nesting. All strings over 33 byte classes up to length 5/6 whose proper prefixes are viable test Valid/Compact/Indent/Unmarshal/UnmarshalWithKeys; accepted strings (with whitespace around) and all 16-symbol strings up to 4/5 go to every public entry point; nesting at 10000/10001 levels.",
   T+"Bytes >= 0x80 are treated as string characters without UTF-8 validation (the grammar applied to bytes, as the standard library does). Nesting between 5 and 9998 levels is covered by the stack-top-only argument, not by enumeration. Also: string literals of every length 0..130 and around 256/1024/4096 with one special byte at the start/middle/end into codec functions and entry points; and buffer histories - one caller buffer per size 16..70000 handed to each entry point well-formed, then overwritten in place with an ill-formed text of equal length, then well-formed again. 760 number literals (sign x 4 integer parts x 5 fractions x 19 exponent spellings) and byte order marks / U+200B around every accepted text. Run shapes: runs of 1..64 blanks inserted at every byte position of a dozen short texts; runs of 1..33 digits after every number prefix and after \\u escapes."),
 "C18": ("seqx", "DESIGN.md §4 E1, §5 C18",
   "C01's enumeration on the legacy root package (built as a module through an overlay go.mod), restricted to the stated domain",
   "Sequences the reference evaluates successfully (without add '' / copy from '') must succeed with a structurally equal document; sequences whose first inapplicable operation is a failed test, a remove/move of an absent target or an out-of-range index must fail with no document; other failures are outside the domain.",
   T+"The legacy package's options are package variables; explored one setting per phase. Size sweeps as C01 (string documents depth 2, width/length documents depth 3), inside the legacy domain. Operations placed behind a failing remove / move and aimed at the location it named must leave the failure standing; prefix-name and twin documents."),
 "C19": ("mergex", "DESIGN.md §4 E2, §5 C19",
   "the merge engines on the legacy package within the stated domains",
   "Legacy MergePatch edges (object/array patches), CreateMergePatch pairs (float64-printable numbers), MergeMergePatches composition, Equal on object/array roots without escapes - all exhaustively over the same value families as the v5 checks.",
   T+"Domains as stated in the property. Size sweeps (DESIGN section 3): the merge clusters (see C02/C03/C06/C07) through the four legacy functions, and float64 neighbours."),
 "C09": ("histx", "DESIGN.md §4 E5, §5 C09",
   "explicit-state breadth-first search over call histories on the real code, with every sync.Pool answer and every map iteration order an explorer-owned choice; state = dump of all process-wide library state; oracle = outcome equals the solo outcome, inputs unchanged",
   "All histories of up to 3 calls (default pool answers and map orders) and of up to 2 calls with one deviation (thorough: 4/0, 3/1, 2/2) from a menu of 55 exported-API calls over ONE shared set of decoded Patch values and input buffers (successes, failures, malformed inputs, both packages), built against a shim of the sync package so that which pooled decoder/encoder/scanner object a Get returns (most recent, any other, or a fresh one) and the order of every map iteration are enumerated within a deviation budget. States are merged on a generic dump of every package-level variable of the library packages (incl. every private field of every recycled object); every transition is judged: same error text / same bytes (Apply, ApplyIndent, CreateMergePatch, Equal) / same JSON value as the call made alone in a brand-new process (one subprocess per menu entry), no shared buffer, Patch or ApplyOptions value changed, results returned earlier still hold their bytes, and a caller overwriting a returned slice does not change the next call.",
   T+"Closure of the state space is not reached with the exact dump (recycled objects remember their last input), so the claim is bounded by depth; the dump omits slice capacity and elements beyond len. Only exported functions are driven. The menu shares ONE ApplyOptions value (limit 40, AllowMissingPathOnRemove on) between five calls incl. a failing move, and carries v5 and legacy patches with values beyond 1 KiB that later operations walk into. decodeBufferReuse: a patch decoded from a buffer the caller later refills with another patch must go on behaving as decoded (both packages). A second legacy patch with null entries is snapshot-compared. Cold histories restore every unexported pointer-free package-level variable of the library to its process-start value. Error VALUES of earlier calls are kept and re-read after every later call; the Operation accessors run on the shared patches; a shared patch adds into an array slot, copies it and replaces it; shared inputs carry long member names with escapes."),
 "C10": ("schedx", "DESIGN.md §4 E6, §5 C10",
   "stateless depth-first exploration of every schedule of 2-3 goroutine harnesses up to a preemption bound under a controlled scheduler on the real code (sync shim + injected statement points), plus a free-running race-detector pass over the same bodies",
   "Every unordered pair of 11 exported-API calls (and 3-goroutine scenarios) on ONE shared Patch and shared input slices, with cold and warm type caches, is run under a cooperative scheduler that owns every sync.Pool/Map/WaitGroup operation of the codec (configuration A) and additionally every statement boundary of the functions touching them, an atomic, or a package-level variable some function writes (configuration B); all schedules within the preemption bound are enumerated (Pool.Get answers share the budget), each complete schedule judged: every call returns its solo outcome, inputs and Patch unchanged, no panic, no deadlock. Replays are deterministic (map iteration fixed at build time; the default schedule is run twice). The 'no data race' clause is decided by the Go race detector on the same bodies running freely over a mutex-guarded global pool (so goroutines really exchange pooled objects).",
   T+"The race half is detection on executed accesses, not enumeration; it is reported separately in the evidence (race_pass). Standard-library internals are trusted. The legacy package is covered by the race half only. Cold scenarios restore every unexported pointer-free package-level variable of the library packages to its process-start value (lazily built tables, flags), so the window of a first-use initialisation is schedulable in every execution; the race pass ends with a cold-start sub-pass (each scenario as the first calls of a brand-new process). Scenarios include two calls on one patch, one 78 KB document and one options value differing only in the indent (<= 1 preemption). The free-running pass also runs six Equal calls on a 3000-deep document at once (limits are per call, not per process) - detection on executed runs, reported as such."),
 "C17": ("codecx", "DESIGN.md §4 E4, §5 C17",
   "bounded-exhaustive enumeration of JSON texts x spellings, of run-time generated Go types x values x texts, and of Decoder scripts x every split of the stream into reads, each compared with an independent reader or with encoding/json",
   "(1) Every value of the enumerated family in several spellings plus escape/number specials goes through all four Unmarshal entry points and back through Marshal/MarshalEscaped - on a brand-new codec state (pools emptied before each entry point) and on a recycled one - and must read back as the same value (literals, code points), report keys in document order, and Compact/Indent/HTMLEscape must equal independent implementations. (2) ~600 Go types built at run time (scalars, []byte, any, pointers, slices, arrays, maps, structs with every tag form, name collisions, embedding) x value domains: Marshal / MarshalIndent / MarshalEscaped / Encoder in 6 settings equal encoding/json byte for byte, and every text of a matching+mismatching set decodes into zero and pre-filled targets to encoding/json's value and error-ness. (3) All Decoder scripts up to length 3/4 over 8 streams under every split into <= 3 reads agree step by step with encoding/json.",
   T+"Relative to the installed standard library; U+0008/U+000C spelling and the Number type are normalised as the property says; ASCII field names. Numeric types also decode per-kind boundary literals (min-1 .. max+1 of int8/uint16/int/uint64 ranges, float32/float64 overflow, underflow and rounding ties; bare, quoted, in arrays and members); pointer chains **T / ***T over the primitive kinds under every tag. Key lists are checked into every string-keyed map type of the type domain; embedding shapes: diamonds with tails (by value and by pointer), three paths, shadowing, tagged vs plain at equal depth."),
 "C20": ("cmdx", "DESIGN.md §4 E7, §5 C20",
   "exhaustive enumeration of -p argument lists (order, repetition) over a patch-file menu x stdin documents, each run as a real process of the binary built from the working tree; byte-exact comparison with the library fold and value comparison with the reference fold",
   "Every list of 0..2 (thorough 3) patch files over a 12-file menu (valid non-commuting patches, one applicable only after another, failing test, malformed, unknown op, missing file, directory, empty, empty patch, root-replacing) x 6 stdin documents is executed with both command binaries (v5 cmd, legacy cmd). Success: stdout byte-identical to folding the library's Apply over the files in command-line order, exit 0, value equal to the reference fold. Any unreadable/undecodable/inapplicable patch: empty stdout, non-empty stderr, non-zero exit.",
   T+"The expected bytes come from the library linked into the harness (same tree). With no -p the command echoes stdin, which is what folding zero patches yields. Also: lists of 10 and 33 files; a failing / malformed / missing file as the 255th, 256th, 257th, 512th, 513th option; stdin delivered in pieces (each piece written only after the command drained the pipe, so its reads return short) cut at 1, n/2, n-1 and around 4096..65536."),
}

NOT_YET = {}

def main():
    props = [json.loads(l) for l in open('/verif/properties.jsonl')]
    checks, na = [], []
    for p in props:
        pid = p['id']
        if pid in CHECKS:
            eng, ref, tech, text, note = CHECKS[pid]
            checks.append({
                "property_id": pid,
                "quick_cmd": f"bin/vcheck {pid} --tier quick",
                "thorough_cmd": f"bin/vcheck {pid} --tier thorough",
                "evidence_file": f"/verif/evidence/{pid}.json",
                "replay_cmd_template": f"bin/vcheck {pid} --replay {{path}}",
                "engine": eng,
                "level_claimed": {"category": "model_checking", "text": text, "design_ref": ref},
                "level_note": note,
                "technique": tech,
            })
        else:
            na.append({"property_id": pid, "reason": NOT_YET.get(pid, "check not built yet in this session (planned in DESIGN.md §5); not claimed until its command exists and is silent on the unchanged tree")})
    m = {
        "version": 1,
        "setup_cmd": "./setup.sh",
        "hooks": {
            "guard": "verif",
            "enable": "no source hooks: observation and scheduling code is injected at build time with `go build -overlay` (generated by bin/vcheck from /repo's working tree); injected files carry //go:build verif-free names zz_verif_*.go and exist only in the overlay",
            "baseline_off_cmd": "cd /repo/v5 && GOFLAGS=-mod=mod GOPROXY=off go test -vet=off -count=1 ./...",
            "source_commits": [],
            "add_only": True,
        },
        "engines": [
            {"name": e, "path": p, "serves_properties": sorted(c for c in CHECKS if e in CHECKS[c][0].split('+')), "kind_free_text": k}
            for e, p, k in [
              ("seqx", "harness/seqx.go", "explicit enumeration of RFC 6902 operation sequences on the real code against a reference evaluator (states = reference documents reached)"),
              ("mergex", "harness/mergex.go", "documents as states, merge patches as edges: exhaustive pairs/triples over enumerated value families"),
              ("bytex", "harness/bytex.go", "all byte strings up to a length into every []byte parameter"),
              ("scanx", "harness/scanx_hook.go", "reachability over the product of the real scanner automaton and a reference pushdown recogniser"),
              ("histx", "harness/histx.go", "explicit-state BFS over API call histories x pool answers x map orders, state = generic dump of all package-level library state (sync shim)"),
              ("schedx", "harness/schedx.go", "controlled scheduler + DFS with iterative preemption bounding over the real code (sync shim), and a free-running race-detector pass"),
              ("codecx", "harness/codecx.go", "bounded-exhaustive differential enumeration of the forked codec against an independent reader and encoding/json (texts, run-time generated types, streams x read splits)"),
              ("cmdx", "harness/cmdx.go", "black-box exhaustive enumeration of command lines x stdin documents on the built binaries"),
              ("decodex", "harness/decodex.go", "all single/pair member mutations of valid operations vs. a reference acceptance predicate"),
            ]
        ],
        "checks": checks,
        "not_applicable": na,
        "notes": "Driver: bin/vcheck <ID> --tier quick|thorough (built by setup.sh). Every check rebuilds the harness against /repo's current working tree through a generated build overlay.",
    }
    json.dump(m, open('/verif/MANIFEST.json','w'), indent=1)
    print("wrote MANIFEST.json:", len(checks), "checks,", len(na), "not claimed")

main()
