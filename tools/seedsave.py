#!/usr/bin/env python3
"""Collects confirmed seeded changes from /tmp/seed into /verif/seeded/<prop>-m<k>/."""
import json, os, glob, shutil, re, sys
NOTES={
 'C08-r4m2': 'NOT DETECTED, judged ambiguous rather than in domain: with SupportNegativeIndices off AND AllowMissingPathOnRemove on, a remove at a negative index below -len is skipped instead of failing. The reference treats negative tokens with negatives off under AllowMissingPathOnRemove as DontCare (the statement says such a remove is neither clearly "a target that does not exist" nor clearly an error), so no check demands either behaviour.',
 'C10-r4m2': 'NOT DETECTED: a 256-slot ring cache of decoded op/path/from strings read after RUnlock; needs more than 256 distinct literals in circulation and fails about once per 130k-320k concurrent calls (no data race: RWMutex + atomic.Value). Outside what a bounded exhaustive schedule exploration of 2-3 short calls can reach, and too rare for the free-running pass; recorded as a limit of the technique at these bounds (DESIGN section 8).',
 'C08-r2m2': 'NOT DETECTED, and judged outside the stated domains: the change only shows for a Patch that did not come from DecodePatch (json.Unmarshal into jsonpatch.Patch with an unknown "op"); every property quantifies over patches accepted by DecodePatch (C01) and C04 names hand-assembled Patch values as excluded. Kept as a record of a miss that is a scope decision, not an oracle gap.',
}
out='/verif/seeded'
os.makedirs(out, exist_ok=True)
rounds=['', '2', '3', '4', '5', '6', '7', '8', '9', '10', '11']
files=[]
for r_ in rounds:
    files+=[(r_, f) for f in sorted(glob.glob(f'/tmp/seed/results{r_}/*.json'))]
for r_, rf in files:
    name=os.path.basename(rf)[:-5]           # C01-m1
    pid,m=name.split('-')
    srcdir='/tmp/seed/out'+r_
    if r_: name=pid+'-r'+r_+m
    s=open(rf).read()
    try: r=json.loads(s[s.index('{'):])
    except Exception as e:
        print('skip',name,'unparsable'); continue
    if not r.get('confirmed'):
        print('skip',name,'not confirmed'); continue
    d=os.path.join(out,name)
    os.makedirs(d, exist_ok=True)
    shutil.copy(f'{srcdir}/{pid}/{m}.diff', os.path.join(d,'patch.diff'))
    demo=r['demo']
    shutil.copy(demo, os.path.join(d,'demo'+('_test.go' if demo.endswith('_test.go') else os.path.splitext(demo)[1])))
    md=f'{srcdir}/{pid}/{m}.md'
    notes=open(md).read() if os.path.exists(md) else ''
    if notes: open(os.path.join(d,'notes.md'),'w').write(notes)
    caught={}
    for k,v in (r.get('checks') or {}).items():
        keys=sorted({x.strip()[4:] for x in v['violations'] if x.strip().startswith('key=')})
        caught[k]={'detected': v['rc']==1, 'exit': v['rc'], 'violation_keys': keys, 'wall_s': v['wall_s']}
    # what it needs: first paragraph mentioning "need"/"trigger"/"manifest" in notes
    needs=''
    for para in re.split(r'\n\s*\n', notes):
        if re.search(r'(?i)need|trigger|manifest', para):
            needs=' '.join(para.split())[:900]; break
    meta={'breaks_property': pid, 'origin': 'written by an independent sub-agent given only the property text and a scratch worktree',
          'needs_to_manifest': needs,
          'confirmed': {'suite_v5_passes_with_change': r['suite_v5_rc_with_change']==0, 'legacy_root_tests_pass_with_change': r['suite_legacy_rc_with_change']==0,
                        'demo_fails_with_change': r['demo_changed_rc']!=0, 'demo_passes_without_change': r['demo_clean_rc']==0},
          'what_was_run': r['ran'], 'checks_run_against_it': caught,
          'detected_by': sorted(k for k,v in caught.items() if v['detected'])}
    if name in NOTES:
        meta['assessment']=NOTES[name]
    json.dump(meta, open(os.path.join(d,'meta.json'),'w'), indent=1)
    print(name, 'detected by', meta['detected_by'] or 'NOTHING')
