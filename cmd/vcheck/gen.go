package main

import "path/filepath"

// genOverlay adds the flavour-specific generated files to the overlay map.
func genOverlay(scratch, flavour string, ov map[string]string, info map[string]interface{}, hooks bool) error {
	if hooks {
		ov[filepath.Join(repoDir, "v5", "internal", "json", "zz_verif_scan.go")] = filepath.Join(verifDir, "overlay", "inject", "json_scan.go")
		ov[filepath.Join(repoDir, "v5", "zzverifjson", "scan.go")] = filepath.Join(verifDir, "overlay", "zzverifjson", "scan.go")
	}
	return nil
}
