package main

// genOverlay adds the flavour-specific generated files to the overlay map.
func genOverlay(scratch, flavour string, ov map[string]string, info map[string]interface{}) error {
	return nil
}
