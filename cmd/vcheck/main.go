// vcheck is the driver behind every MANIFEST command: it generates a build
// overlay from /repo's current working tree, builds the harness against it, runs
// one property's exploration, matches violations against known_findings.json and
// writes the evidence file.
package main

import (
	"encoding/json"
	"flag"
	"fmt"
	"os"
	"os/exec"
	"path/filepath"
	"regexp"
	"strconv"
	"strings"
	"time"
)

// verifDir: the framework's own directory (the parent of bin/), so that a copy or
// snapshot of /verif is self-contained
var verifDir = func() string {
	if v := os.Getenv("VCHECK_HOME"); v != "" {
		return v
	}
	if exe, err := os.Executable(); err == nil {
		if d := filepath.Dir(filepath.Dir(exe)); fileExists(filepath.Join(d, "harness", "go.mod")) {
			return d
		}
	}
	return "/verif"
}()

func fileExists(p string) bool { _, err := os.Stat(p); return err == nil }

// repoDir is the tree under test: /repo for every registered command. VCHECK_REPO
// points the same check at a scratch worktree (used only to try seeded changes
// without touching /repo); VCHECK_OUT then receives evidence and replay files.
var (
	repoDir = envOr("VCHECK_REPO", "/repo")
	outDir  = envOr("VCHECK_OUT", verifDir)
)

func envOr(k, d string) string {
	if v := os.Getenv(k); v != "" {
		return v
	}
	return d
}

type violation struct {
	Property string          `json:"property"`
	Clause   string          `json:"clause"`
	Key      string          `json:"key"`
	Detail   string          `json:"detail"`
	Engine   string          `json:"engine"`
	Case     json.RawMessage `json:"case"`
	GoTest   string          `json:"go_test,omitempty"`
}

type report struct {
	Property   string                 `json:"property"`
	Engine     string                 `json:"engine"`
	Tier       string                 `json:"tier"`
	States     int64                  `json:"states"`
	Trans      int64                  `json:"transitions"`
	Validated  int64                  `json:"traces_validated_against_impl"`
	Evals      int64                  `json:"evaluations"`
	Nontrivial int64                  `json:"distinct_nontrivial"`
	Rule       string                 `json:"rule"`
	Exhaustive bool                   `json:"exhaustive"`
	Caps       []string               `json:"caps_hit"`
	Counters   map[string]int64       `json:"counters"`
	Samples    []interface{}          `json:"samples"`
	Extra      map[string]interface{} `json:"extra"`
	Violations []violation            `json:"violations"`
	NViol      int64                  `json:"violations_total"`
	Assume     []string               `json:"assumptions"`
	WallS      float64                `json:"wall_s"`
}

type finding struct {
	Status    string `json:"status"` // known | fixed
	Property  string `json:"property"`
	Key       string `json:"key"`        // exact violation key
	CaseRegex string `json:"case_regex"` // optional, on the case JSON
	What      string `json:"what"`
	Commit    string `json:"commit,omitempty"`
}

func env() []string {
	e := os.Environ()
	e = append(e, "GOFLAGS=-mod=mod", "GOPROXY=off", "GOSUMDB=off", "GOTOOLCHAIN=local", "CGO_ENABLED=0")
	return e
}

func fatal(code int, f string, a ...interface{}) {
	fmt.Fprintf(os.Stderr, "vcheck: "+f+"\n", a...)
	os.Exit(code)
}

func main() {
	if len(os.Args) < 2 {
		fatal(2, "usage: vcheck <property-id> [--tier quick|thorough] [--replay file]")
	}
	id := os.Args[1]
	if id == "--build" { // vcheck --build <dir> [flavour]: leave overlay + harness binary in <dir> (manual use)
		fl := "plain"
		if len(os.Args) > 3 {
			fl = os.Args[3]
		}
		os.MkdirAll(os.Args[2], 0o755)
		bin, info, err := buildHarness(os.Args[2], fl)
		if err != nil {
			fatal(2, "%v", err)
		}
		fmt.Println(bin, info)
		return
	}
	if id == "--warm" {
		for _, fl := range []string{"plain", "shimrace", "cmd"} {
			scratch, err := os.MkdirTemp("/var/tmp", "vcheck-warm-")
			if err != nil {
				fatal(2, "scratch: %v", err)
			}
			_, _, err = buildHarness(scratch, fl)
			os.RemoveAll(scratch)
			if err != nil {
				fmt.Fprintf(os.Stderr, "warm %s: %v\n", fl, err)
			}
		}
		return
	}
	fs := flag.NewFlagSet("vcheck", flag.ExitOnError)
	tier := fs.String("tier", os.Getenv("VERIF_TIER"), "quick|thorough")
	replay := fs.String("replay", "", "replay one recorded case")
	budget := fs.String("budget", "", "override the internal deadline (e.g. 90s)")
	keep := fs.Bool("keep", false, "keep the scratch directory")
	fs.Parse(os.Args[2:])
	if *tier == "" {
		*tier = "quick"
	}
	start := time.Now()
	seed, _ := strconv.Atoi(os.Getenv("VERIF_SEED"))

	scratch, err := os.MkdirTemp("/var/tmp", "vcheck-"+id+"-")
	if err != nil {
		fatal(2, "scratch: %v", err)
	}
	if !*keep {
		defer os.RemoveAll(scratch)
	}
	exit := func(code int) {
		if !*keep {
			os.RemoveAll(scratch)
		}
		os.Exit(code)
	}

	flavour := flavourOf(id)
	bin, binfo, err := buildHarness(scratch, flavour)
	if err != nil {
		fmt.Fprintf(os.Stderr, "vcheck: cannot build the harness against %s's working tree (this is not a verdict):\n%v\n", repoDir, err)
		exit(2)
	}

	if *replay != "" {
		cmd := exec.Command(bin, "replay", "--prop", id, "--file", *replay)
		cmd.Stdout, cmd.Stderr, cmd.Env = os.Stdout, os.Stderr, append(env(), "VERIF_SCRATCH="+scratch,
			"VERIF_JP5="+filepath.Join(scratch, "jp5"), "VERIF_JP4="+filepath.Join(scratch, "jp4"))
		if err := cmd.Run(); err != nil {
			if ee, ok := err.(*exec.ExitError); ok {
				exit(ee.ExitCode())
			}
			exit(2)
		}
		exit(0)
	}

	repPath := filepath.Join(scratch, "report.json")
	args := []string{"run", "--prop", id, "--tier", *tier, "--out", repPath}
	if *budget != "" {
		args = append(args, "--budget", *budget)
	}
	cmd := exec.Command(bin, args...)
	cmd.Env = append(env(), "VERIF_SCRATCH="+scratch, "VERIF_REPO="+repoDir)
	if flavour == "shimrace" {
		if _, err := os.Stat(filepath.Join(scratch, "hrace")); err == nil {
			cmd.Env = append(cmd.Env, "VERIF_RACEBIN="+filepath.Join(scratch, "hrace"))
		}
	}
	if flavour == "cmd" {
		cmd.Env = append(cmd.Env, "VERIF_JP5="+filepath.Join(scratch, "jp5"), "VERIF_JP4="+filepath.Join(scratch, "jp4"))
	}
	cmd.Dir = scratch
	var stderr strings.Builder
	cmd.Stdout, cmd.Stderr = os.Stdout, &stderr
	runErr := cmd.Run()
	code := 0
	if runErr != nil {
		if ee, ok := runErr.(*exec.ExitError); ok {
			code = ee.ExitCode()
		} else {
			code = 2
		}
	}
	var rep report
	if code == 3 {
		// hang: the harness wrote what was in flight
		what, _ := os.ReadFile(repPath + ".hang")
		rep = report{Property: id, Engine: "watchdog", Tier: *tier, States: 1, Trans: 1,
			Samples: []interface{}{string(what)}, Rule: "hang detected before the exploration finished",
			Violations: []violation{{Property: id, Clause: "hang", Key: id + ":hang", Engine: "watchdog",
				Detail: "a library call did not return within the watchdog limit", Case: json.RawMessage(jsonOr(what))}}, NViol: 1}
	} else if kind := fatalKind(stderr.String()); code != 0 && kind != "" {
		// the library crashed the process (not recoverable): find the case
		rep = attributeCrash(id, *tier, bin, scratch, args, kind, stderr.String())
	} else if code != 0 {
		fmt.Fprintf(os.Stderr, "vcheck: harness exited with status %d (this is not a verdict):\n%s\n", code, tail(stderr.String(), 60))
		exit(2)
	} else {
		b, err := os.ReadFile(repPath)
		if err != nil {
			fatal(2, "no report: %v", err)
		}
		if err := json.Unmarshal(b, &rep); err != nil {
			fatal(2, "bad report: %v", err)
		}
	}
	if s := stderr.String(); s != "" {
		fmt.Fprint(os.Stderr, tail(s, 20))
	}

	// classify violations
	findings := loadFindings()
	replayDir := filepath.Join(outDir, "replays", id)
	os.RemoveAll(replayDir)
	nNew := 0
	knownSeen := map[int]bool{}
	var lines []string
	for i, v := range rep.Violations {
		if k := matchFinding(findings, v); k >= 0 {
			knownSeen[k] = true
			continue
		}
		os.MkdirAll(replayDir, 0o755)
		path := filepath.Join(replayDir, fmt.Sprintf("%s-%03d.json", *tier, i))
		b, _ := json.MarshalIndent(v, "", " ")
		os.WriteFile(path, b, 0o644)
		nNew++
		lines = append(lines, fmt.Sprintf("VIOLATION property=%s replay=%s", id, path),
			fmt.Sprintf("  key=%s\n  %s", v.Key, trunc(v.Detail, 400)))
	}
	for k := range findings {
		if knownSeen[k] {
			fmt.Printf("KNOWN-FINDING: property=%s %s\n", id, findings[k].What)
		}
	}
	for _, l := range lines {
		fmt.Println(l)
	}

	// evidence
	wall := time.Since(start).Seconds()
	cov := map[string]interface{}{
		"states": max64(rep.States, 1), "transitions": max64(rep.Trans, 1),
		"traces_validated_against_impl": rep.Validated,
		"evaluations":                   max64(rep.Evals, 1), "distinct_nontrivial": rep.Nontrivial,
		"rule": rep.Rule, "samples": rep.Samples, "exhaustive": rep.Exhaustive,
		"caps_hit": rep.Caps, "counters": rep.Counters, "engine": rep.Engine,
		"violations_total_before_dedup": rep.NViol, "known_findings_seen": len(knownSeen),
		"harness_wall_s": rep.WallS, "build": binfo,
	}
	for k, v := range rep.Extra {
		cov[k] = v
	}
	if len(rep.Samples) == 0 {
		cov["samples"] = []interface{}{"(no sample recorded)"}
	}
	ev := map[string]interface{}{
		"property_id": id, "tier": *tier, "seed": seed, "level": "model_checking",
		"coverage": cov, "assumptions": rep.Assume, "wall_s": wall, "violations": nNew,
	}
	if rep.Assume == nil {
		ev["assumptions"] = []string{}
	}
	os.MkdirAll(filepath.Join(outDir, "evidence"), 0o755)
	b, _ := json.MarshalIndent(ev, "", " ")
	if err := os.WriteFile(filepath.Join(outDir, "evidence", id+".json"), append(b, '\n'), 0o644); err != nil {
		fatal(2, "evidence: %v", err)
	}
	fmt.Printf("%s %s: engine=%s states=%d transitions=%d validated=%d exhaustive=%v violations=%d known=%d wall=%.1fs\n",
		id, *tier, rep.Engine, rep.States, rep.Trans, rep.Validated, rep.Exhaustive, nNew, len(knownSeen), wall)
	if nNew > 0 {
		exit(1)
	}
	exit(0)
}

func jsonOr(b []byte) []byte {
	if json.Valid(b) {
		return b
	}
	q, _ := json.Marshal(string(b))
	return q
}

func max64(a, b int64) int64 {
	if a > b {
		return a
	}
	return b
}

func trunc(s string, n int) string {
	if len(s) > n {
		return s[:n] + "…"
	}
	return s
}

func tail(s string, n int) string {
	l := strings.Split(strings.TrimRight(s, "\n"), "\n")
	if len(l) > n {
		l = l[len(l)-n:]
	}
	return strings.Join(l, "\n") + "\n"
}

func loadFindings() []finding {
	b, err := os.ReadFile(filepath.Join(verifDir, "known_findings.json"))
	if err != nil {
		return nil
	}
	var f struct {
		Findings []finding `json:"findings"`
	}
	if err := json.Unmarshal(b, &f); err != nil {
		fatal(2, "known_findings.json: %v", err)
	}
	return f.Findings
}

func matchFinding(fs []finding, v violation) int {
	for i, f := range fs {
		if f.Status != "known" || f.Property != v.Property || f.Key != v.Key {
			continue
		}
		if f.CaseRegex != "" {
			re, err := regexp.Compile(f.CaseRegex)
			if err != nil || !re.Match(v.Case) {
				continue
			}
		}
		return i
	}
	return -1
}

// fatalKind recognises crashes of the Go runtime that recover() cannot stop.
func fatalKind(stderr string) string {
	switch {
	case strings.Contains(stderr, "goroutine stack exceeds") || strings.Contains(stderr, "fatal error: stack overflow"):
		return "stack-overflow"
	case strings.Contains(stderr, "fatal error: runtime: out of memory") || strings.Contains(stderr, "cannot allocate memory"):
		return "out-of-memory"
	case strings.Contains(stderr, "fatal error: concurrent map"):
		return "concurrent-map-access"
	case strings.Contains(stderr, "fatal error: all goroutines are asleep"):
		return "deadlock"
	}
	return ""
}

// attributeCrash re-runs the harness with case tracing on, then replays the last
// traced cases one by one in fresh processes until one reproduces the crash.
func attributeCrash(id, tier, bin, scratch string, args []string, kind, firstErr string) report {
	tracePath := filepath.Join(scratch, "trace.jsonl")
	os.Remove(tracePath)
	cmd := exec.Command(bin, args...)
	cmd.Env = append(env(), "VERIF_SCRATCH="+scratch, "VERIF_REPO="+repoDir, "VERIF_TRACE="+tracePath)
	cmd.Dir = scratch
	cmd.Run()
	tb, _ := os.ReadFile(tracePath)
	lines := strings.Split(strings.TrimSpace(string(tb)), "\n")
	// each line is "<worker id>\t<case>": a worker that crashed never reports again, so
	// the culprit is the LAST case of some worker
	seen := map[string]bool{}
	var cand []string
	for i := len(lines) - 1; i >= 0; i-- {
		parts := strings.SplitN(lines[i], "\t", 2)
		if len(parts) != 2 || seen[parts[0]] {
			continue
		}
		seen[parts[0]] = true
		cand = append(cand, parts[1])
	}
	msg := firstErr
	if i := strings.Index(msg, "fatal error"); i >= 0 {
		msg = msg[i:]
	} else if i := strings.Index(msg, "runtime: goroutine stack exceeds"); i >= 0 {
		msg = msg[i:]
	}
	msg = trunc(msg, 1200)
	v := violation{Property: id, Clause: "crash", Key: id + ":crash:" + kind, Engine: "driver",
		Detail: "the library crashed the whole process (" + kind + "), which no caller can recover from: " + msg}
	found := false
	for _, l := range cand {
		if !json.Valid([]byte(l)) {
			continue
		}
		f := filepath.Join(scratch, "crashcase.json")
		b, _ := json.Marshal(map[string]interface{}{"property": id, "case": json.RawMessage(l)})
		os.WriteFile(f, b, 0o644)
		rc := exec.Command(bin, "replay", "--prop", id, "--file", f)
		rc.Env = append(env(), "VERIF_SCRATCH="+scratch)
		out, err := rc.CombinedOutput()
		if err != nil && fatalKind(string(out)) != "" {
			v.Case = json.RawMessage(l)
			found = true
			break
		}
	}
	if !found {
		n := len(cand)
		if n > 16 {
			n = 16
		}
		q, _ := json.Marshal(map[string]interface{}{"unattributed": true, "last_cases_in_flight": cand[:n]})
		v.Case = q
		v.Detail += " (the culprit is among the cases listed; single-case replay did not reproduce it)"
	}
	return report{Property: id, Engine: "driver/crash-attribution", Tier: tier, States: 1, Trans: int64(len(lines)), Validated: int64(len(lines)),
		Evals: int64(len(lines)), Nontrivial: 2, Samples: []interface{}{string(v.Case)},
		Rule:       "the exploration was cut short by an unrecoverable crash of the library; every case is traced before it runs and the last traced cases are replayed singly to attribute the crash",
		Violations: []violation{v}, NViol: 1, Caps: []string{"exploration aborted by a process crash in the code under test"}}
}
