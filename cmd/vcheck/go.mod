module verif.local/vcheck

go 1.18
