package main

import (
	"encoding/json"
	"fmt"
	"os"
	"os/exec"
	"path/filepath"
	"strings"
	"time"
)

// flavourOf: which build of the harness a property needs.
func flavourOf(id string) string {
	switch id {
	case "C09", "C17", "C02", "C03", "C07":
		return "shim"
	case "C10":
		return "shimrace"
	case "C20":
		return "cmd"
	}
	return "plain"
}

const legacyGoMod = `module github.com/evanphx/json-patch

go 1.18

require github.com/jessevdk/go-flags v1.6.1

require golang.org/x/sys v0.21.0 // indirect
`

// buildHarness generates the overlay for the current working tree of /repo and
// builds /verif/harness against it. Nothing under /repo is touched.
func buildHarness(scratch, flavour string) (string, map[string]interface{}, error) {
	bin, info, err := buildHarness1(scratch, flavour, true)
	if err == nil {
		return bin, info, nil
	}
	// an edit to /repo may have made an injected observation file stop compiling:
	// fall back to the hook-free build of the same harness
	bin, info2, err2 := buildHarness1(scratch, flavour, false)
	if err2 != nil {
		return "", info, err
	}
	info2["hooks"] = "unavailable: injected observation files did not compile against this tree; hook-free fallback"
	info2["hooks_error"] = trunc(err.Error(), 600)
	return bin, info2, nil
}

func buildHarness1(scratch, flavour string, hooks bool) (string, map[string]interface{}, error) {
	info := map[string]interface{}{"flavour": flavour, "hooks": "injected by overlay"}
	ov := map[string]string{}
	// 1. the legacy root package has no go.mod: give it one (overlay only)
	lm := filepath.Join(scratch, "legacy.go.mod")
	os.WriteFile(lm, []byte(legacyGoMod), 0o644)
	ov[filepath.Join(repoDir, "go.mod")] = lm
	sum, _ := os.ReadFile(filepath.Join(repoDir, "v5", "go.sum"))
	ls := filepath.Join(scratch, "legacy.go.sum")
	os.WriteFile(ls, sum, 0o644)
	ov[filepath.Join(repoDir, "go.sum")] = ls
	// 2. re-export package for the internal codec
	ov[filepath.Join(repoDir, "v5", "zzverifjson", "export.go")] = filepath.Join(verifDir, "overlay", "zzverifjson", "export.go")
	// 3. flavour-specific generated files
	if err := genOverlay(scratch, flavour, ov, info, hooks); err != nil {
		return "", info, err
	}
	ovPath := filepath.Join(scratch, "overlay.json")
	b, _ := json.MarshalIndent(map[string]interface{}{"Replace": ov}, "", " ")
	os.WriteFile(ovPath, b, 0o644)

	// the harness module is copied so that go.sum / go.mod edits never touch /verif
	hdir := filepath.Join(scratch, "harness")
	os.RemoveAll(hdir)
	if out, err := exec.Command("cp", "-r", filepath.Join(verifDir, "harness"), hdir).CombinedOutput(); err != nil {
		return "", info, fmt.Errorf("copy harness: %v %s", err, out)
	}
	if repoDir != "/repo" {
		gm, _ := os.ReadFile(filepath.Join(hdir, "go.mod"))
		os.WriteFile(filepath.Join(hdir, "go.mod"), []byte(strings.ReplaceAll(string(gm), "=> /repo", "=> "+repoDir)), 0o644)
	}
	bin := filepath.Join(scratch, "h")
	t0 := time.Now()
	args := []string{"build", "-overlay", ovPath, "-o", bin}
	tags := []string{}
	if strings.HasPrefix(flavour, "shim") {
		tags = append(tags, "shim")
	}
	if !hooks {
		tags = append(tags, "nohooks")
	}
	if len(tags) > 0 {
		args = append(args, "-tags", strings.Join(tags, ","))
	}
	args = append(args, ".")
	cmd := exec.Command("go", args...)
	cmd.Dir = hdir
	cmd.Env = env()
	out, err := cmd.CombinedOutput()
	info["build_s"] = time.Since(t0).Seconds()
	info["repo_head"] = strings.TrimSpace(gitOut("rev-parse", "--short", "HEAD"))
	info["repo_dirty_files"] = len(strings.Fields(gitOut("status", "--porcelain", "--untracked-files=no")))
	if err != nil {
		return "", info, fmt.Errorf("%v\n%s", err, out)
	}
	if flavour == "shimrace" {
		// second half of C10: the same harness, free-running, under the race detector
		t1 := time.Now()
		rargs := []string{"build", "-race", "-overlay", ovPath, "-o", filepath.Join(scratch, "hrace"), "-tags", strings.Join(tags, ","), "."}
		rc := exec.Command("go", rargs...)
		rc.Dir = hdir
		rc.Env = append(env(), "CGO_ENABLED=1")
		if out, err := rc.CombinedOutput(); err != nil {
			info["race_build_error"] = trunc(string(out), 800)
		} else {
			info["race_build_s"] = time.Since(t1).Seconds()
		}
	}
	if flavour == "cmd" {
		// the two command binaries, from the working tree
		t1 := time.Now()
		c5 := exec.Command("go", "build", "-o", filepath.Join(scratch, "jp5"), "./cmd/json-patch")
		c5.Dir, c5.Env = filepath.Join(repoDir, "v5"), env()
		if out, err := c5.CombinedOutput(); err != nil {
			return "", info, fmt.Errorf("build v5/cmd/json-patch: %v\n%s", err, out)
		}
		c4 := exec.Command("go", "build", "-overlay", ovPath, "-o", filepath.Join(scratch, "jp4"), "./cmd/json-patch")
		c4.Dir, c4.Env = repoDir, env()
		if out, err := c4.CombinedOutput(); err != nil {
			return "", info, fmt.Errorf("build cmd/json-patch (legacy): %v\n%s", err, out)
		}
		info["cmd_build_s"] = time.Since(t1).Seconds()
	}
	return bin, info, nil
}

func gitOut(args ...string) string {
	out, _ := exec.Command("git", append([]string{"-C", repoDir}, args...)...).Output()
	return string(out)
}
