#!/bin/sh
# Builds the driver and warms the Go build cache. Offline; files on disk only.
set -e
cd "$(dirname "$0")"
V=$(pwd)
export GOFLAGS=-mod=mod GOPROXY=off GOSUMDB=off GOTOOLCHAIN=local CGO_ENABLED=0
mkdir -p bin evidence
(cd cmd/vcheck && go build -o "$V/bin/vcheck" .)
# warm the cache: one harness build per flavour (result discarded)
"$V/bin/vcheck" --warm || true
echo setup done
